#!/bin/bash
# Regenerates every evidence file from /repo's current tree (quick tier) and validates
# MANIFEST.json and the evidence files against their schemas.
cd "$(dirname "$0")/.."
./check --build || exit 2
python3 tools/genmanifest.py
fail=0
for id in $(python3 -c "import json;print(' '.join(c['property_id'] for c in json.load(open('MANIFEST.json'))['checks']))"); do
  out=$(./check $id ${1:-quick} 2>&1); rc=$?
  echo "$out" | grep -E "^govc:|VIOLATION|KNOWN-FINDING" | cut -c1-200
  [ $rc -ne 0 ] && { echo "CHECK $id exit $rc"; fail=1; }
done
python3-vt - <<'PY' || fail=1
import json,jsonschema,glob,sys
m=json.load(open('/verif/MANIFEST.json'))
jsonschema.validate(m,json.load(open('/root/.vp/MANIFEST.schema.json')))
es=json.load(open('/root/.vp/EVIDENCE.schema.json'))
bad=0
for c in m['checks']:
    e=json.load(open(c['evidence_file']))
    try: jsonschema.validate(e,es)
    except Exception as ex: print('EVIDENCE INVALID',c['property_id'],str(ex)[:300]); bad=1
    cov=e.get('coverage',{})
    if cov.get('obligations')!=cov.get('discharged'): print('EVIDENCE MISMATCH',c['property_id'],cov.get('obligations'),cov.get('discharged')); bad=1
print('manifest + evidence schema ok' if not bad else 'PROBLEMS')
sys.exit(bad)
PY
exit $fail
