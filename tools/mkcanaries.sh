#!/bin/bash
# Regenerates selftest canaries: the reverse of every "fix:" commit in /repo must make the
# corresponding obligation fail again (a fixed defect that returns is reported).
set -e
cd /verif
mk() { # name commit-subject-substring property obligation-substring
  c=$(git -C /repo log --format="%h %s" | grep "fix:" | grep -F "$2" | awk '{print $1}')
  d=selftest/cases/canary-$1; mkdir -p $d
  git -C /repo diff $c $c^ -- . ':!*zz_contracts_verif.go' | sed 's#^--- a/#--- a/#;s#^+++ b/#+++ b/#' > $d/patch.diff
  printf '%s\n%s\n' "$3" "$4" > $d/expect
}
mk lzhuf-reader "lzhuf Reader spins" C08 "Read/"
mk cleanstring "cleanString panics" C03 "cleanString/"
mk readsection "readSection panics" C03 "readSection/"
mk newcourse "NewCourse formats" C20 "NewCourse/callpre"
mk dectomindec "decToMinDec prints 60" C20 "minutes-range"
mk mailbox-atomic "mailbox writes message files in place" C11 "shape:function-exists"
mk mailbox-mid "remote-chosen MIDs" C12 "shape:function-exists"
mk mailbox-p2p "leaks private headers" C10 "stripped"
mk fbb-crc "bad CRC-16 or size is delivered" C04 "data/"
mk agwpe-port "frames ignore the port" C13 "Frame/post"
mk agwpe-readfull "arrives in more than one TCP segment" C13 "ReadFrom/"
mk agwpe-read "agwpe Conn.Read panics" C13 "contract errors"
mk ardop-ctrl "parseCtrlMsg panics" C14 "parseCtrlMsg/"
mk ardop-frame "readFrameOfType panics" C14 "readFrameOfType/"
mk ardop-read "tncConn.Read panics" C14 "Read/"
mk telnet-bytes "telnet login loses bytes" C15 "contract errors"
mk telnet-deadline "ignores the context deadline" C15 "DialContext/"
mk body-long "drops the text from the first line" C18 "StringToBody/"
mk body-rune "splits a multi-byte character" C18 "cut-on-boundary"
mk ardop-cmd-crcfault "commands are sent again when the TNC answers CRCFAULT" C14 "contract-fits-code"
