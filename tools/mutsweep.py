#!/usr/bin/env python3
"""tools/mutsweep.py FILE PROP[,PROP...] [max]
Systematic small mutations (comparison/logic operators, continue/break, +-1 on small constants,
true/false) of one source file of /repo.  A mutant that compiles and passes the package's own
tests and ./tests is run through the checks of the given properties; mutants that no check
reports are listed (candidates: equivalent mutants or holes in the contracts).
Scratch copies live under /root/scratch/mut and are removed."""
import sys,re,os,subprocess,shutil,json,hashlib
from concurrent.futures import ThreadPoolExecutor
FILE=sys.argv[1]; PROPS=sys.argv[2].split(','); MAX=int(sys.argv[3]) if len(sys.argv)>3 else 400
src=open('/repo/'+FILE).read().split('\n')
pkgdir='./'+os.path.dirname(FILE)
OPS=[(r' == ',' != '),(r' != ',' == '),(r' < ',' <= '),(r' <= ',' < '),(r' > ',' >= '),(r' >= ',' > '),(r' && ',' || '),(r' \|\| ',' && '),
     (r'\bcontinue\b','break'),(r'\bbreak\b','continue'),(r'\btrue\b','false'),(r'\bfalse\b','true'),(r' \+ 1\b',' + 2'),(r' - 1\b',' - 2'),(r' \+ 2\b',' + 1'),(r' - 2\b',' - 1'),
     (r'\b0\b','1'),(r'\b1\b','0'),(r'!(\w)',r'\1'),(r'\bif (\w[\w.]*) \{',r'if !\1 {')]
muts=[]
incomment=False
for ln,line in enumerate(src):
    s=line.strip()
    if s.startswith('//') or s.startswith('import') or s.startswith('package') or '"' in s and s.startswith('"'): continue
    if s.startswith('/*'): incomment=True
    if incomment:
        if '*/' in s: incomment=False
        continue
    code=line.split('//')[0]
    # skip string-only parts crudely: do not mutate inside quotes
    for pat,rep in OPS:
        for m in re.finditer(pat,code):
            pre=code[:m.start()]
            if pre.count('"')%2==1 or pre.count('`')%2==1 or pre.count("'")%2==1: continue
            new=code[:m.start()]+re.sub(pat,rep,code[m.start():m.end()],count=1)+code[m.end():]+line[len(code):]
            if new!=line: muts.append((ln,line,new))
muts=muts[:MAX]
print(f"{len(muts)} mutants of {FILE}",flush=True)
env=dict(os.environ,GOFLAGS='-mod=mod',GOPROXY='off')
def run(i):
    ln,old,new=muts[i]
    d=f'/root/scratch/mut/m{os.getpid()}_{i}'
    shutil.rmtree(d,ignore_errors=True)
    subprocess.run(['rsync','-a','--exclude','.git','/repo/',d+'/'],check=True)
    lines=list(src); lines[ln]=new
    open(d+'/'+FILE,'w').write('\n'.join(lines))
    try:
        r=subprocess.run(['go','build','./...'],cwd=d,env=env,capture_output=True,text=True,timeout=300)
        if r.returncode!=0: return (i,'nocompile','')
        r=subprocess.run(['go','test','-vet=off','-count=1','-timeout','120s',pkgdir,'./tests'],cwd=d,env=env,capture_output=True,text=True,timeout=400)
        if r.returncode!=0: return (i,'killed-by-tests','')
        caught=[]
        for p in PROPS:
            r=subprocess.run(['/verif/bin/govc','check','-repo',d,'-prop',p,'-spec','/verif/spec','-known','/verif/known_findings.json','-replays',d+'/_rp','-noreplay'],capture_output=True,text=True,timeout=900)
            v=[l for l in r.stdout.split('\n') if l.startswith('VIOLATION')]
            if v:
                m=re.search(r'obligation=(\S+)',v[0]); caught.append(p+':'+(m.group(1) if m else 'shape'))
                break
        return (i,'caught' if caught else 'SURVIVED',';'.join(caught))
    except subprocess.TimeoutExpired:
        return (i,'timeout','')
    finally:
        shutil.rmtree(d,ignore_errors=True)
res=[]
with ThreadPoolExecutor(max_workers=6) as ex:
    for i,st,info in ex.map(run,range(len(muts))):
        ln,old,new=muts[i]
        res.append((i,st,info))
        if st in('SURVIVED','timeout'):
            print(f"{st} {FILE}:{ln+1}\n   - {old.strip()}\n   + {new.strip()}",flush=True)
from collections import Counter
print(Counter(s for _,s,_ in res))
