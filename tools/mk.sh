mk () 
{ 
    name=$1;
    prop=$2;
    obl=$3;
    file=$4;
    from=$5;
    to=$6;
    d=/verif/selftest/cases/$name;
    mkdir -p $d;
    rm -rf /root/scratch/mk;
    mkdir -p /root/scratch/mk/a/$(dirname $file) /root/scratch/mk/b/$(dirname $file);
    cp /repo/$file /root/scratch/mk/a/$file;
    python3 - "$file" "$from" "$to" <<'PY'
import sys
f,fr,to=sys.argv[1:4]
s=open('/repo/'+f).read()
assert s.count(fr)==1, (s.count(fr), fr)
open('/root/scratch/mk/b/'+f,'w').write(s.replace(fr,to))
PY

    ( cd /root/scratch/mk && diff -u a/$file b/$file > $d/patch.diff );
    printf '%s\n%s\n' "$prop" "$obl" > $d/expect
}
