#!/usr/bin/env python3
# Regenerates /verif/MANIFEST.json from the claim table below.
import json, subprocess
props=[json.loads(l) for l in open('/verif/properties.jsonl')]
TECH="contract-based deductive verification: contracts in comment-only files on the real functions, WP/symbolic execution over go/ssa with loop invariants and modular calls, obligations discharged by SMT (z3 5.1 / z3 4.8 / cvc5)"
BASE="Trusted base: go/ssa translation of Go, the SMT solvers, the govc generator (guarded by a must-fail corpus); assumed (extern) contracts for standard-library functions as inventoried in the evidence file; A-INT64 (64-bit integer arithmetic mathematical, narrower types exact); "
claimed={
 "C08": dict(text="Every obligation generated from the real lzhuf reader code is discharged for all inputs: index/nil safety of Read/decodeChar/decodePosition/update, the adaptive-Huffman representation invariant (FGK sibling property) preserved by update, termination measures of every loop, progress of Read (n>0 or error), bounded output (delivered <= declared size), delivered-bytes accounting and the Close verdict.", ref="6.8",
     note=BASE+"reconst's re-establishment of the tree invariant is a trusted contract; whole-stream termination follows from per-call progress plus bounded output by a meta-argument; 'canonical decoding' is C07's reduct."),
 "C19": dict(text="ParseURL's postconditions (target/digis/host/params/scheme exactly as the property states, relative to net/url, path and strings contracts), absence of panics for every string, dialer dispatch (registered dialer called with the url, its result returned; ErrMissingDialer iff none) and the registry lock discipline (every map access under the mutex, no path leaves it held) are proved for all inputs.", ref="6.19",
     note=BASE+"net/url.Parse, path.Split, strings.Split/Trim/ToUpper are uninterpreted functional contracts (their own fidelity is not checked); the lock discipline is a sequential typestate argument standing in for the concurrent register/unregister/dial quantifier."),
 "C20": dict(text="For every float64 latitude/longitude in range the values handed to the DD-MM.MMMMH formatter are proved (QF_FP, exact IEEE semantics) to have integral degrees in range, minutes in [0, 59.99995] (prints below 60.0000), the exact float evaluation of (|x|-trunc|x|)*60 with carry (accuracy), the right format string and hemisphere byte; NewCourse yields three ASCII digits (360 -> 000) and errors out of range; Course.String appends M/T; PosReport.Message writes each optional line iff its field is set and builds a valid message.", ref="6.20",
     note=BASE+"fmt's rendering of %07.4f/%02.0f/%03d is assumed as documented (a double <= 59.99995 prints below 60.0000); fbb.NewMessage/SetBody/SetSubject/AddTo are trusted contracts here. Known finding: hemisphere byte is a space for exactly 0.0 (pinned by an existing test)."),
 "C16": dict(text="secureLoginResponse is verified in exact bit-vector semantics for every challenge, password and MD5 digest: the digested payload is challenge++password++salt (lengths and bytes), the formatted integer is (d3&0x3f)<<24|d2<<16|d1<<8|d0 in [0,2^30), the result is the last 8 characters of the %08d rendering. sendHandshake's wire events are pinned call by call: no write before the missing-handler error, bare first address, 'addr|response' only for auxiliary addresses with a non-empty password, ;PR with the response for the first address iff challenged, callback error aborts, and every formatted argument is pinned so the password cannot be an argument.", ref="6.16",
     note=BASE+"MD5 is an uninterpreted function; fmt's %08d rendering (>= 8 characters) is an assumed fact; slr(challenge,password) is a definitional link (trusted) between secureLoginResponse and its callers; the password callback may change only foreign state."),
}
import sys
checks=[]
for pid,c in sorted(claimed.items()):
    checks.append({"property_id":pid,"quick_cmd":f"./check {pid} quick","thorough_cmd":f"./check {pid} thorough","evidence_file":f"/verif/evidence/{pid}.json","replay_cmd_template":"./check --replay {path}","engine":"govc","level_claimed":{"category":"proof","text":c["text"],"design_ref":c["ref"]},"level_note":c["note"],"technique":TECH})
na=[{"property_id":p["id"],"reason":"contracts for this property are not built yet in this revision (work in progress; DESIGN.md section 6 describes the planned reduct)"} for p in props if p["id"] not in claimed]
commits=subprocess.run(["git","-C","/repo","log","--format=%h %s","71183fc..HEAD"],capture_output=True,text=True).stdout.strip().split("\n")
hooks=[c.split()[0] for c in commits if "verif hook" in c]
m={"version":1,"setup_cmd":"./check --build",
   "hooks":{"guard":"verif","enable":"-tags verif (only the verifier's go/packages loader sets it; the guarded files zz_contracts_verif.go are comment-only contract files)","baseline_off_cmd":"cd /repo && GOFLAGS=-mod=mod GOPROXY=off go test -vet=off -count=1 ./...","source_commits":hooks,"add_only":True},
   "engines":[{"name":"govc","path":"/verif/govc","serves_properties":sorted(claimed),"kind_free_text":"deductive verifier for Go written for this task (no Go verifier is installed): contracts in comment-only files, weakest-precondition style symbolic execution over go/ssa with loop invariants, modular calls, ghost/typestate call-site clauses; obligations discharged by z3 5.1 / z3 4.8 / cvc5; counterexamples replayed on the real code with go test -overlay"}],
   "checks":checks,"not_applicable":na,"notes":"see DESIGN.md; known_findings.json lists genuine defects found (fixed ones with their fix: commit)"}
json.dump(m,open('/verif/MANIFEST.json','w'),indent=1)
print("claimed:",sorted(claimed))
