package fbb

import (
	"net"
	"testing"
	"time"
)

// C01 quantifies over the master's MOTD lines.  A banner line that ends in '>' (or looks like a
// SID, "[...]") is taken for a protocol line by the other station's handshake reader and the
// exchange between two stations of this library fails.
func TestMOTDLineTakenForPrompt(t *testing.T) {
	for _, motd := range []string{"Welcome to N0CALL", "Welcome >", "[hello]"} {
		a, b := net.Pipe()
		master := NewSession("N0CALL", "LA5NTA", "JO39EQ", nil)
		master.IsMaster(true)
		master.SetMOTD(motd)
		slave := NewSession("LA5NTA", "N0CALL", "JP20QE", nil)
		errs := make(chan error, 2)
		go func() { _, err := master.Exchange(a); errs <- err }()
		go func() { _, err := slave.Exchange(b); errs <- err }()
		for i := 0; i < 2; i++ {
			select {
			case err := <-errs:
				if err != nil {
					t.Errorf("MOTD %q: Exchange: %v", motd, err)
				}
			case <-time.After(3 * time.Second):
				t.Errorf("MOTD %q: Exchange did not complete", motd)
				a.Close()
				b.Close()
			}
		}
	}
}
