package ardop

import (
	"bufio"
	"encoding/binary"
	"io"
	"net"
	"strings"
	"sync"
	"testing"
	"time"
)

// seedFakeTNC simulates the TNC side of the CRC-protected serial host interface.
type seedFakeTNC struct {
	mu   sync.Mutex
	conn net.Conn
}

// sendCmd sends one "c:" command frame (TNC -> host).
func (f *seedFakeTNC) sendCmd(line string) error {
	payload := []byte(line + "\r")
	buf := append([]byte("c:"), payload...)
	var sum [2]byte
	binary.BigEndian.PutUint16(sum[:], crc16Sum(payload))
	buf = append(buf, sum[:]...)

	f.mu.Lock()
	defer f.mu.Unlock()
	_, err := f.conn.Write(buf)
	return err
}

// sendARQ sends one "d:" ARQ data frame (TNC -> host).
func (f *seedFakeTNC) sendARQ(data []byte) error {
	body := make([]byte, 2, 2+3+len(data))
	binary.BigEndian.PutUint16(body, uint16(3+len(data)))
	body = append(body, "ARQ"...)
	body = append(body, data...)
	buf := append([]byte("d:"), body...)
	var sum [2]byte
	binary.BigEndian.PutUint16(sum[:], crc16Sum(body))
	buf = append(buf, sum[:]...)

	f.mu.Lock()
	defer f.mu.Unlock()
	_, err := f.conn.Write(buf)
	return err
}

// serve answers host commands (host -> TNC "C:" frames) like a real TNC would.
func (f *seedFakeTNC) serve() {
	rd := bufio.NewReader(f.conn)
	for {
		prefix := make([]byte, 2)
		if _, err := io.ReadFull(rd, prefix); err != nil {
			return
		}
		if string(prefix) != "C:" {
			return // The demo never sends data frames
		}
		line, err := rd.ReadString('\r')
		if err != nil {
			return
		}
		if _, err := io.ReadFull(rd, make([]byte, 2)); err != nil { // CRC
			return
		}
		line = strings.TrimSuffix(line, "\r")
		fields := strings.SplitN(line, " ", 2)
		switch strings.ToUpper(fields[0]) {
		case "MYCALL":
			if len(fields) == 1 {
				f.sendCmd("MYCALL N0CALL")
			} else {
				f.sendCmd("MYCALL now " + fields[1])
			}
		case "LISTEN":
			f.sendCmd("LISTEN now " + strings.ToUpper(fields[1]))
		case "DISCONNECT":
			f.sendCmd("DISCONNECTED")
		default:
			f.sendCmd(line)
		}
	}
}


// A link that was reported CONNECTED and ended before any connection object existed (no dial, no
// listener with a TARGET) left its data frames queued: the next connection read them first.
func TestStaleDataOfAnEarlierLink(t *testing.T) {
	host, tncSide := net.Pipe()
	defer host.Close()
	defer tncSide.Close()
	fake := &seedFakeTNC{conn: tncSide}
	go fake.serve()
	tnc := newTNC(host, nil)
	if err := tnc.runControlLoop(); err != nil {
		t.Fatal(err)
	}
	fake.sendCmd("CONNECTED LA9XXX 500")
	fake.sendARQ([]byte("STALE-FROM-LA9XXX"))
	fake.sendCmd("DISCONNECTED")
	fake.sendCmd("NEWSTATE DISC")
	time.Sleep(300 * time.Millisecond)
	if n := len(tnc.dataIn); n != 0 {
		t.Fatalf("%d data frame(s) of the ended link are still queued for the next connection", n)
	}
}
