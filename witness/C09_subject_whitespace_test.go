package fbb

import (
	"bytes"
	"testing"
)

// C09: "The subject, attachment-name ... accessors return what was set for every value representable
// in the format's character set", and a serialised message parses back with identical headers.
// A pure-ASCII subject is stored unencoded; Header.Write and the header parser trim the value, so
// surrounding whitespace is lost in the round trip; an ASCII subject that looks like an RFC 2047
// encoded-word is decoded by the accessor although it was set verbatim.
func TestSubjectWhitespaceAndEncodedWordLookalike(t *testing.T) {
	for _, subject := range []string{"plain", " padded ", "=?utf-8?q?x?="} {
		m := NewMessage(Private, "N0CALL")
		m.AddTo("LA5NTA")
		m.SetSubject(subject)
		m.SetBody("body")
		if got := m.Subject(); got != subject {
			t.Errorf("Subject() after SetSubject(%q) = %q", subject, got)
		}
		raw, err := m.Bytes()
		if err != nil {
			t.Fatal(err)
		}
		parsed := new(Message)
		if err := parsed.ReadFrom(bytes.NewReader(raw)); err != nil {
			t.Fatal(err)
		}
		if got := parsed.Subject(); got != subject {
			t.Errorf("Subject() after a round trip of %q = %q", subject, got)
		}
	}
}
