package agwpe

import (
	"bytes"
	"testing"
	"time"
)

func TestObs3HugeDataLen(t *testing.T) {
	const mycall = "N0CALL"
	o, tp := obsSetup(t, mycall, nil)
	var buf bytes.Buffer
	header{Port: 0, DataKind: kindConnectedData, From: callsignFromString("X"), To: callsignFromString(mycall), DataLen: 0xFFFFFFFF}.WriteTo(&buf)
	o.raw(buf.Bytes())
	time.Sleep(500 * time.Millisecond)
	_, err := tp.TNC.Version()
	t.Logf("still alive; Version err=%v", err)
}
