package agwpe

import (
	"context"
	"fmt"
	"net"
	"testing"
	"time"
)

func TestObs2BurstVariants(t *testing.T) {
	const mycall, remote = "N0CALL", "LA1B-10"
	for _, tc := range []struct {
		n   int
		gap time.Duration
	}{{2, 0}, {3, 0}, {8, 0}, {8, 100 * time.Microsecond}, {8, time.Millisecond}, {8, 5 * time.Millisecond}} {
		t.Run(fmt.Sprintf("n%d_gap%v", tc.n, tc.gap), func(t *testing.T) {
			ps, all := obsPayloads(tc.n, 64)
			_, tp := obsSetup(t, mycall, func(o *obsTNC, h header) {
				time.Sleep(100 * time.Millisecond)
				if tc.gap == 0 {
					var fs []frame
					for _, p := range ps {
						fs = append(fs, connectedDataFrame(0, remote, mycall, p))
					}
					o.send(fs...)
					return
				}
				for _, p := range ps {
					o.send(connectedDataFrame(0, remote, mycall, p))
					time.Sleep(tc.gap)
				}
			})
			conn, err := tp.DialContext(context.Background(), remote)
			if err != nil {
				t.Fatal(err)
			}
			got := readAll(conn, len(all), time.Second)
			t.Logf("got %d of %d bytes: %.5q...", len(got), len(all), got)
			var idx []string
			for i := 0; i+64 <= len(got); i += 64 {
				idx = append(idx, string(got[i:i+5]))
			}
			t.Logf("frames delivered: %v", idx)
			if len(got) != len(all) {
				t.Fail()
			}
		})
	}
}

func TestObs2InboundGap(t *testing.T) {
	const mycall, remote = "N0CALL", "LA1B-10"
	for _, gap := range []time.Duration{0, 100 * time.Microsecond, time.Millisecond, 10 * time.Millisecond} {
		t.Run(fmt.Sprint(gap), func(t *testing.T) {
			o, tp := obsSetup(t, mycall, nil)
			ln, _ := tp.Listen()
			acc := make(chan net.Conn, 1)
			go func() { c, _ := ln.Accept(); acc <- c }()
			time.Sleep(100 * time.Millisecond)
			payload := []byte("hello from the caller\r")
			o.send(frame{header: header{Port: 0, DataKind: kindConnect, From: callsignFromString(remote), To: callsignFromString(mycall)}, Data: []byte("*** CONNECTED To Station " + remote + "\r")})
			time.Sleep(gap)
			o.send(connectedDataFrame(0, remote, mycall, payload))
			c := <-acc
			got := readAll(c, len(payload), time.Second)
			if string(got) != string(payload) {
				t.Fatalf("got %q", got)
			}
		})
	}
}
