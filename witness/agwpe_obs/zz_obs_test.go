package agwpe

import (
	"bytes"
	"context"
	"encoding/binary"
	"fmt"
	"io"
	"net"
	"sync"
	"testing"
	"time"
)

type obsTNC struct {
	t       *testing.T
	ln      net.Listener
	mu      sync.Mutex
	c       net.Conn
	onConn  func(o *obsTNC, h header) // called (in a goroutine) after replying to 'C'
	yReply  uint32
	rx      []frame // frames received from the host
	badSeen bool
}

func (o *obsTNC) send(fs ...frame) {
	var buf bytes.Buffer
	for _, f := range fs {
		f.WriteTo(&buf)
	}
	o.mu.Lock()
	defer o.mu.Unlock()
	o.c.Write(buf.Bytes())
}

func (o *obsTNC) raw(b []byte) {
	o.mu.Lock()
	defer o.mu.Unlock()
	o.c.Write(b)
}

func (o *obsTNC) serve(mycall, remote string) {
	c, err := o.ln.Accept()
	if err != nil {
		return
	}
	o.c = c
	defer c.Close()
	for {
		var h header
		if err := binary.Read(c, binary.LittleEndian, &h); err != nil {
			return
		}
		if h.DataLen > 1<<20 {
			o.mu.Lock()
			o.badSeen = true
			o.mu.Unlock()
			return
		}
		data := make([]byte, h.DataLen)
		if _, err := io.ReadFull(c, data); err != nil {
			return
		}
		o.mu.Lock()
		o.rx = append(o.rx, frame{header: h, Data: data})
		o.mu.Unlock()
		switch h.DataKind {
		case kindPortCapabilities:
			caps := make([]byte, 12)
			caps[6] = 7
			o.send(frame{header: header{Port: h.Port, DataKind: kindPortCapabilities}, Data: caps})
		case kindRegister:
			o.send(frame{header: header{Port: h.Port, DataKind: kindRegister, From: h.From}, Data: []byte{1}})
		case kindOutstandingFramesForConn:
			b := make([]byte, 4)
			binary.LittleEndian.PutUint32(b, o.yReply)
			o.send(frame{header: header{Port: h.Port, DataKind: kindOutstandingFramesForConn, From: h.From, To: h.To}, Data: b})
		case kindDisconnect:
			o.send(frame{header: header{Port: h.Port, DataKind: kindDisconnect, From: h.To, To: h.From}, Data: []byte("*** DISCONNECTED\r")})
		case kindConnect:
			o.send(frame{
				header: header{Port: h.Port, DataKind: kindConnect, From: h.To, To: h.From},
				Data:   []byte("*** CONNECTED With Station " + h.To.String() + "\r"),
			})
			if o.onConn != nil {
				go o.onConn(o, h)
			}
		}
	}
}

func obsSetup(t *testing.T, mycall string, onConn func(o *obsTNC, h header)) (*obsTNC, *TNCPort) {
	ln, err := net.Listen("tcp", "127.0.0.1:0")
	if err != nil {
		t.Fatal(err)
	}
	o := &obsTNC{t: t, ln: ln, onConn: onConn}
	go o.serve(mycall, "")
	tp, err := OpenPortTCP(ln.Addr().String(), 0, mycall)
	if err != nil {
		t.Fatal(err)
	}
	t.Cleanup(func() { tp.TNC.Close(); ln.Close() })
	return o, tp
}

func obsPayloads(n, size int) ([][]byte, []byte) {
	var all []byte
	var ps [][]byte
	for i := 0; i < n; i++ {
		p := bytes.Repeat([]byte{byte('a' + i%26)}, size)
		copy(p, fmt.Sprintf("[%03d]", i))
		ps = append(ps, p)
		all = append(all, p...)
	}
	return ps, all
}

func readAll(conn net.Conn, want int, d time.Duration) []byte {
	conn.SetReadDeadline(time.Now().Add(d))
	got := make([]byte, 0, want)
	buf := make([]byte, 4096)
	for len(got) < want {
		n, err := conn.Read(buf)
		got = append(got, buf[:n]...)
		if err != nil {
			break
		}
	}
	return got
}

// O1: burst of D frames in ONE TCP write, prompt reader.
func TestObsBurst(t *testing.T) {
	const mycall, remote = "N0CALL", "LA1B-10"
	const N = 8
	ps, all := obsPayloads(N, 64)
	_, tp := obsSetup(t, mycall, func(o *obsTNC, h header) {
		time.Sleep(100 * time.Millisecond)
		var fs []frame
		for _, p := range ps {
			fs = append(fs, connectedDataFrame(0, remote, mycall, p))
		}
		o.send(fs...)
	})
	conn, err := tp.DialContext(context.Background(), remote)
	if err != nil {
		t.Fatal(err)
	}
	got := readAll(conn, len(all), 2*time.Second)
	if !bytes.Equal(got, all) {
		t.Fatalf("burst: got %d of %d bytes", len(got), len(all))
	}
}

// O2: reader briefly slower than the TNC.
func TestObsSlowReader(t *testing.T) {
	const mycall, remote = "N0CALL", "LA1B-10"
	const N = 30
	ps, all := obsPayloads(N, 64)
	_, tp := obsSetup(t, mycall, func(o *obsTNC, h header) {
		time.Sleep(100 * time.Millisecond)
		for _, p := range ps {
			o.send(connectedDataFrame(0, remote, mycall, p))
			time.Sleep(5 * time.Millisecond)
		}
	})
	conn, err := tp.DialContext(context.Background(), remote)
	if err != nil {
		t.Fatal(err)
	}
	time.Sleep(600 * time.Millisecond) // reader busy elsewhere
	got := readAll(conn, len(all), 2*time.Second)
	if !bytes.Equal(got, all) {
		t.Fatalf("slow reader: got %d of %d bytes", len(got), len(all))
	}
}

// O3: inbound connection, data directly behind the 'C' frame.
func TestObsInboundDataBehindConnect(t *testing.T) {
	const mycall, remote = "N0CALL", "LA1B-10"
	o, tp := obsSetup(t, mycall, nil)
	ln, err := tp.Listen()
	if err != nil {
		t.Fatal(err)
	}
	type res struct {
		c   net.Conn
		err error
	}
	acc := make(chan res, 1)
	go func() { c, err := ln.Accept(); acc <- res{c, err} }()
	time.Sleep(100 * time.Millisecond)
	payload := []byte("hello from the caller\r")
	o.send(
		frame{header: header{Port: 0, DataKind: kindConnect, From: callsignFromString(remote), To: callsignFromString(mycall)}, Data: []byte("*** CONNECTED To Station " + remote + "\r")},
		connectedDataFrame(0, remote, mycall, payload),
	)
	var r res
	select {
	case r = <-acc:
	case <-time.After(2 * time.Second):
		t.Fatal("accept timeout")
	}
	if r.err != nil {
		t.Fatal(r.err)
	}
	got := readAll(r.c, len(payload), time.Second)
	if !bytes.Equal(got, payload) {
		t.Fatalf("inbound: got %q want %q", got, payload)
	}
}

// O4: D frame on the same port between the remote and ANOTHER local callsign.
func TestObsOtherStation(t *testing.T) {
	const mycall, remote = "N0CALL", "LA1B-10"
	_, tp := obsSetup(t, mycall, func(o *obsTNC, h header) {
		time.Sleep(100 * time.Millisecond)
		o.send(connectedDataFrame(0, remote, "OTHER-1", []byte("NOT-FOR-N0CALL ")))
		time.Sleep(50 * time.Millisecond)
		o.send(connectedDataFrame(0, "THIRD-3", remote, []byte("THIRD-TO-REMOTE ")))
		time.Sleep(50 * time.Millisecond)
		o.send(connectedDataFrame(0, remote, mycall, []byte("mine")))
	})
	conn, err := tp.DialContext(context.Background(), remote)
	if err != nil {
		t.Fatal(err)
	}
	got := readAll(conn, 1000, time.Second)
	if string(got) != "mine" {
		t.Fatalf("other station: Read yielded %q, want %q", got, "mine")
	}
}

// O5: two connections on one port writing concurrently.
func TestObsConcurrentWriters(t *testing.T) {
	const mycall = "N0CALL"
	o, tp := obsSetup(t, mycall, nil)
	o.yReply = 1
	c1, err := tp.DialContext(context.Background(), "AAA-1")
	if err != nil {
		t.Fatal(err)
	}
	c2, err := tp.DialContext(context.Background(), "BBB-2")
	if err != nil {
		t.Fatal(err)
	}
	c3, _ := tp.DialContext(context.Background(), "CCC-3")
	c4, _ := tp.DialContext(context.Background(), "DDD-4")
	var wg sync.WaitGroup
	for _, c := range []net.Conn{c1, c2, c3, c4} {
		wg.Add(1)
		go func(c net.Conn) {
			defer wg.Done()
			c.SetWriteDeadline(time.Now().Add(20 * time.Second))
			for i := 0; i < 3000; i++ {
				if _, err := c.Write(bytes.Repeat([]byte{'x'}, 256)); err != nil {
					return
				}
			}
		}(c)
	}
	wg.Wait()
	time.Sleep(100 * time.Millisecond)
	o.mu.Lock()
	defer o.mu.Unlock()
	bad := o.badSeen
	for _, f := range o.rx {
		switch f.DataKind {
		case kindPortCapabilities, kindRegister, kindConnect, kindOutstandingFramesForConn, kindDisconnect:
			if f.DataKind != kindConnectedData && len(f.Data) != 0 {
				bad = true
			}
		case kindConnectedData:
			if !bytes.Equal(f.Data, bytes.Repeat([]byte{'x'}, 256)) {
				bad = true
			}
		default:
			bad = true
		}
	}
	if bad {
		for i, f := range o.rx {
			if i > 20 { break }
			t.Logf("rx[%d] kind=%q port=%d from=%q to=%q datalen=%d data=%.40q", i, byte(f.DataKind), f.Port, f.From.String(), f.To.String(), f.DataLen, f.Data)
		}
		t.Fatalf("TNC received malformed frames (%d frames, badSeen=%v)", len(o.rx), o.badSeen)
	}
}

// O7: TNC that has already sent and got the frame acked when polled: Y == 0.
func TestObsWriteHangsOnZeroOutstanding(t *testing.T) {
	const mycall, remote = "N0CALL", "LA1B-10"
	_, tp := obsSetup(t, mycall, nil)
	conn, err := tp.DialContext(context.Background(), remote)
	if err != nil {
		t.Fatal(err)
	}
	done := make(chan error, 1)
	go func() { _, err := conn.Write([]byte("hello")); done <- err }()
	select {
	case err := <-done:
		t.Logf("write returned: %v", err)
	case <-time.After(3 * time.Second):
		t.Fatal("Write still blocked after 3s although the TNC took the frame (Y=0 forever)")
	}
}
