package agwpe

import (
	"encoding/binary"
	"io"
	"net"
	"testing"
	"bytes"
)

// TNC that does not know 'g' (ignores it) but answers 'X' properly.
func TestObs4NoCapabilities(t *testing.T) {
	ln, _ := net.Listen("tcp", "127.0.0.1:0")
	defer ln.Close()
	sawX := make(chan struct{}, 1)
	go func() {
		c, err := ln.Accept()
		if err != nil {
			return
		}
		defer c.Close()
		for {
			var h header
			if err := binary.Read(c, binary.LittleEndian, &h); err != nil {
				return
			}
			io.CopyN(io.Discard, c, int64(h.DataLen))
			if h.DataKind == kindRegister {
				sawX <- struct{}{}
				var buf bytes.Buffer
				frame{header: header{Port: h.Port, DataKind: kindRegister, From: h.From}, Data: []byte{1}}.WriteTo(&buf)
				c.Write(buf.Bytes())
			}
		}
	}()
	tp, err := OpenPortTCP(ln.Addr().String(), 0, "N0CALL")
	select {
	case <-sawX:
		t.Log("TNC got the X frame and acknowledged it")
	default:
		t.Log("TNC never got X")
	}
	if err != nil {
		t.Fatalf("registration failed: %v", err)
	}
	tp.Close()
}
