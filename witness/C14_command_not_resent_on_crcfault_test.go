package ardop

import (
	"testing"
	"time"
)

// C14: "the TNC receives correctly framed commands and data ... retransmitted on CRCFAULT".
// A command whose frame the TNC rejected with CRCFAULT (serial host interface) has to be sent
// again; before the repair set/get ignored the report and waited for an answer for ever.
func TestCommandResentOnCRCFault(t *testing.T) {
	for _, name := range []string{"set", "get"} {
		out := make(chan string)
		tnc := &TNC{in: newBroadcaster(), out: out}
		done := make(chan error, 1)
		go func() {
			if name == "set" {
				done <- tnc.set(cmdMyCall, "LA5NTA")
			} else {
				_, err := tnc.get(cmdMyCall)
				done <- err
			}
		}()
		first := <-out
		tnc.in.Send(ctrlMsg{cmd: cmdCRCFault})
		select {
		case again := <-out:
			if again != first {
				t.Fatalf("%s: resent %q, first transmission was %q", name, again, first)
			}
		case <-time.After(2 * time.Second):
			t.Fatalf("%s: command %q not sent again after CRCFAULT", name, first)
		}
		tnc.in.Send(ctrlMsg{cmd: cmdMyCall, value: "LA5NTA"})
		select {
		case err := <-done:
			if err != nil {
				t.Fatalf("%s: %v", name, err)
			}
		case <-time.After(2 * time.Second):
			t.Fatalf("%s: did not return after the answer", name)
		}
		// a TNC that keeps rejecting the frame: give up after three transmissions
		go func() { done <- tnc.set(cmdMyCall, "LA5NTA") }()
		for i := 0; i < 3; i++ {
			select {
			case <-out:
			case <-time.After(2 * time.Second):
				t.Fatalf("%s: transmission %d missing", name, i+1)
			}
			tnc.in.Send(ctrlMsg{cmd: cmdCRCFault})
		}
		select {
		case err := <-done:
			if err == nil {
				t.Fatalf("%s: success although every transmission was rejected", name)
			}
		case <-out:
			t.Fatalf("%s: fourth transmission", name)
		case <-time.After(2 * time.Second):
			t.Fatalf("%s: no verdict after three rejected transmissions", name)
		}
	}
}
