package fbb

import "testing"

// A line that ends in a NUL byte lost its last TWO bytes (str[0:len(str)-2]): the challenge
// ";PQ: 12345678\x00" became "1234567" and the ;PR answer was the one for the wrong challenge;
// "FF\x00" became "F".
func TestCleanStringTrailingNUL(t *testing.T) {
	if got := cleanString("FF\x00"); got != "FF" {
		t.Errorf("cleanString(%q) = %q", "FF\x00", got)
	}
	if got := cleanString(";PQ: 12345678\x00"); got != ";PQ: 12345678" {
		t.Errorf("cleanString(%q) = %q", ";PQ: 12345678\x00", got)
	}
}
