package mailbox

import "testing"

// Marking a MID as sent that is not in the outbox (C10 quantifies over any operation sequence)
// ended the process: log.Fatalf in SetSent.
func TestSetSentAbsentMID(t *testing.T) {
	h := NewDirHandler(t.TempDir(), false)
	if err := h.Prepare(); err != nil {
		t.Fatal(err)
	}
	h.SetSent("NOTTHERE", false) // exits the test binary with status 1 on the unrepaired code
	if n := h.SentCount(); n != 0 {
		t.Errorf("SentCount = %d", n)
	}
}
