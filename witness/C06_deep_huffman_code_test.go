package lzhuf

// Reproducer for an observation on the UNCHANGED code (not part of the seed):
// copy to lzhuf/zz_obs_deepcode_test.go and run
//   go test -vet=off -count=1 -run TestObsDeepHuffmanCode ./lzhuf
// It uses only the exported API. It FAILS on the unchanged code.

import (
	"bytes"
	"io/ioutil"
	"testing"
)

// obsDeepBody builds ~128 KB made of 60 distinct literal bytes followed by
// ~27000 back-references whose lengths (3,4,5,6,7,8,9,10,60) occur with
// Fibonacci-like frequencies. Every seam between two copied segments is a byte
// pair that is not present in the sliding window, so each segment is coded as
// exactly one match of the intended length. This skews the adaptive Huffman
// tree until the ~240 still-unused symbols sit 17 levels deep (root frequency
// 26928 < 0x8000, so no rebuild intervenes).
func obsDeepBody() []byte {
	const m = 60
	D := make([]byte, m)
	for i := range D {
		D[i] = byte(0x41 + i)
	}
	out := append([]byte{}, D...)
	J := 314 + m
	lens := []int{60, 10, 9, 8, 7, 6, 5, 4, 3}
	quota := []int{J / 2, J, J * 3 / 2, J * 5 / 2, J * 4, J * 13 / 2, J * 21 / 2, J * 17, J * 55 / 2}
	done := make([]int, len(lens))
	rot := 0
	for {
		type cand struct {
			i int
			v float64
		}
		var cs []cand
		for i := range lens {
			if done[i] < quota[i] {
				cs = append(cs, cand{i, float64(done[i]) / float64(quota[i])})
			}
		}
		if len(cs) == 0 {
			break
		}
		for a := 0; a < len(cs); a++ {
			for b := a + 1; b < len(cs); b++ {
				if cs[b].v < cs[a].v {
					cs[a], cs[b] = cs[b], cs[a]
				}
			}
		}
		var present [256][256]bool
		lo := len(out) - 2200
		if lo < 0 {
			lo = 0
		}
		for k := lo; k+1 < len(out); k++ {
			present[out[k]][out[k+1]] = true
		}
		e := out[len(out)-1]
		placed := false
		for _, c := range cs {
			L := lens[c.i]
			nStarts := m - L + 1
			for t := 0; t < nStarts && !placed; t++ {
				s := (rot + t) % nStarts
				if s == int(e-0x41)+1 || present[e][D[s]] {
					continue
				}
				out = append(out, D[s:s+L]...)
				done[c.i]++
				rot += 7
				placed = true
			}
			if placed {
				break
			}
		}
		if !placed {
			panic("stuck")
		}
	}
	return out
}

func TestObsDeepHuffmanCode(t *testing.T) {
	// body, then the so far unused byte 0x01 (its leaf is an odd-numbered node
	// 17 levels below the root), then a short tail.
	input := append(obsDeepBody(), 0x01)
	input = append(input, []byte("tail tail tail")...)

	var comp bytes.Buffer
	w := NewB2Writer(&comp)
	if _, err := w.Write(input); err != nil {
		t.Fatal(err)
	}
	if err := w.Close(); err != nil {
		t.Fatal(err)
	}
	r, err := NewB2Reader(bytes.NewReader(comp.Bytes()))
	if err != nil {
		t.Fatal(err)
	}
	got, rerr := ioutil.ReadAll(r)
	cerr := r.Close()
	t.Logf("input %d bytes, compressed %d bytes, read err=%v, close err=%v", len(input), comp.Len(), rerr, cerr)
	if !bytes.Equal(got, input) {
		i := 0
		for i < len(got) && i < len(input) && got[i] == input[i] {
			i++
		}
		t.Fatalf("round trip differs at offset %d: want byte %#x, got %#x (Reader.Close = %v)", i, input[i], got[i], cerr)
	}
}
