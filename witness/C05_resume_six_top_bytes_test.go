package fbb

import (
	"bytes"
	"testing"
)

// docs/F6FBB-B2F/protocole.html: "In case of forwarding with a BBS using version 1, the 6 top
// bytes will be always sent, then if resume seek to asked offset, then send data."
// A peer that answers a proposal with "!<offset>" (or "A<offset>") therefore expects the CRC16 and
// the length (the six top bytes of the compressed file) first, followed by the data from the
// offset. writeCompressed sends compressedData[offset:] only.
func TestResumeResendsSixTopBytes(t *testing.T) {
	msg := NewMessage(Private, "N0CALL")
	msg.AddTo("LA5NTA")
	msg.SetSubject("resume")
	msg.SetBody("0123456789 0123456789 0123456789 0123456789 0123456789 0123456789\r\n")
	p, err := msg.Proposal(Wl2kProposal)
	if err != nil {
		t.Fatal(err)
	}
	const offset = 10
	p.offset = offset

	s := NewSession("N0CALL", "LA5NTA", "JO39EQ", nil)
	var wire bytes.Buffer
	if err := s.writeCompressed(&wire, p); err != nil {
		t.Fatal(err)
	}

	// SOH, L, title NUL offset NUL, then STX blocks
	b := wire.Bytes()
	if b[0] != 1 {
		t.Fatalf("no SOH")
	}
	b = b[2+int(b[1]):]
	var payload []byte
	for len(b) > 0 && b[0] == 2 {
		n := int(b[1])
		if n == 0 {
			n = 256
		}
		payload = append(payload, b[2:2+n]...)
		b = b[2+n:]
	}
	want := append(append([]byte{}, p.compressedData[:6]...), p.compressedData[offset:]...)
	if !bytes.Equal(payload, want) {
		t.Errorf("resumed transfer carries %d bytes starting % x; the document asks for the six top bytes % x followed by the data from offset %d (%d bytes)",
			len(payload), payload[:6], p.compressedData[:6], offset, len(want))
	}
}
