package ardop

import (
	"bufio"
	"bytes"
	"encoding/binary"
	"testing"
	"testing/iotest"
)

// The serial (CRC protected) host interface delivers bytes in arbitrary chunks. A valid
// command frame whose two CRC bytes do not arrive in the same read is rejected with
// ErrChecksumMismatch, and the second CRC byte is then taken for the start of the next frame.
func TestSerialCRCBytesSplitAcrossReads(t *testing.T) {
	payload := []byte("NEWSTATE DISC\r")
	var stream bytes.Buffer
	for i := 0; i < 2; i++ {
		stream.WriteString("c:")
		stream.Write(payload)
		binary.Write(&stream, binary.BigEndian, crc16Sum(payload))
	}
	for _, name := range []string{"whole", "one byte at a time"} {
		var rd *bufio.Reader
		if name == "whole" {
			rd = bufio.NewReader(bytes.NewReader(stream.Bytes()))
		} else {
			rd = bufio.NewReader(iotest.OneByteReader(bytes.NewReader(stream.Bytes())))
		}
		for i := 0; i < 2; i++ {
			ft, err := rd.ReadByte()
			if err != nil {
				t.Fatalf("%s: frame %d: %v", name, i, err)
			}
			rd.ReadByte() // ':'
			f, err := readFrameOfType(ft, rd, false)
			if err != nil {
				t.Fatalf("%s: frame %d (type %q): %v", name, i, ft, err)
			}
			if string(f.(cmdFrame)) != "NEWSTATE DISC" {
				t.Fatalf("%s: frame %d: got %q", name, i, f)
			}
		}
	}
}
