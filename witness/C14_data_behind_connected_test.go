package ardop

import (
	"bufio"
	"encoding/binary"
	"io"
	"net"
	"strings"
	"sync"
	"testing"
	"time"
)

// seedFakeTNC simulates the TNC side of the CRC-protected serial host interface.
type seedFakeTNC struct {
	mu   sync.Mutex
	conn net.Conn
}

// sendCmd sends one "c:" command frame (TNC -> host).
func (f *seedFakeTNC) sendCmd(line string) error {
	payload := []byte(line + "\r")
	buf := append([]byte("c:"), payload...)
	var sum [2]byte
	binary.BigEndian.PutUint16(sum[:], crc16Sum(payload))
	buf = append(buf, sum[:]...)

	f.mu.Lock()
	defer f.mu.Unlock()
	_, err := f.conn.Write(buf)
	return err
}

// sendARQ sends one "d:" ARQ data frame (TNC -> host).
func (f *seedFakeTNC) sendARQ(data []byte) error {
	body := make([]byte, 2, 2+3+len(data))
	binary.BigEndian.PutUint16(body, uint16(3+len(data)))
	body = append(body, "ARQ"...)
	body = append(body, data...)
	buf := append([]byte("d:"), body...)
	var sum [2]byte
	binary.BigEndian.PutUint16(sum[:], crc16Sum(body))
	buf = append(buf, sum[:]...)

	f.mu.Lock()
	defer f.mu.Unlock()
	_, err := f.conn.Write(buf)
	return err
}

// serve answers host commands (host -> TNC "C:" frames) like a real TNC would.
func (f *seedFakeTNC) serve() {
	rd := bufio.NewReader(f.conn)
	for {
		prefix := make([]byte, 2)
		if _, err := io.ReadFull(rd, prefix); err != nil {
			return
		}
		if string(prefix) != "C:" {
			return // The demo never sends data frames
		}
		line, err := rd.ReadString('\r')
		if err != nil {
			return
		}
		if _, err := io.ReadFull(rd, make([]byte, 2)); err != nil { // CRC
			return
		}
		line = strings.TrimSuffix(line, "\r")
		fields := strings.SplitN(line, " ", 2)
		switch strings.ToUpper(fields[0]) {
		case "MYCALL":
			if len(fields) == 1 {
				f.sendCmd("MYCALL N0CALL")
			} else {
				f.sendCmd("MYCALL now " + fields[1])
			}
		case "LISTEN":
			f.sendCmd("LISTEN now " + strings.ToUpper(fields[1]))
		case "DISCONNECT":
			f.sendCmd("DISCONNECTED")
		default:
			f.sendCmd(line)
		}
	}
}


// An ARQ data frame that arrives directly behind the CONNECTED report of an inbound connection:
// the event loop still sees tnc.connected == false (the listener goroutine sets it after it got
// the broadcast) and discards the frame - the first bytes of the connection are lost.
func TestInboundDataRightAfterConnected(t *testing.T) {
	lost := 0
	const rounds = 40
	for r := 0; r < rounds; r++ {
		host, tncSide := net.Pipe()
		fake := &seedFakeTNC{conn: tncSide}
		go fake.serve()
		tnc := newTNC(host, nil)
		if err := tnc.runControlLoop(); err != nil {
			t.Fatal(err)
		}
		ln, err := tnc.Listen()
		if err != nil {
			t.Fatal(err)
		}
		accepted := make(chan net.Conn, 1)
		go func() {
			c, err := ln.Accept()
			if err == nil {
				accepted <- c
			}
		}()
		time.Sleep(100 * time.Millisecond)
		fake.sendCmd("PENDING")
		fake.sendCmd("TARGET N0CALL")
		fake.sendCmd("NEWSTATE IRS")
		fake.sendCmd("CONNECTED LA2IN 500")
		fake.sendARQ([]byte("hello")) // directly behind CONNECTED
		var conn net.Conn
		select {
		case conn = <-accepted:
		case <-time.After(3 * time.Second):
			t.Fatal("no inbound connection")
		}
		read := make(chan string, 1)
		go func() {
			buf := make([]byte, 16)
			n, _ := conn.Read(buf)
			read <- string(buf[:n])
		}()
		select {
		case got := <-read:
			if got != "hello" {
				lost++
			}
		case <-time.After(500 * time.Millisecond):
			lost++
		}
		host.Close()
		tncSide.Close()
	}
	if lost > 0 {
		t.Fatalf("the data frame sent directly behind CONNECTED was lost in %d of %d rounds", lost, rounds)
	}
}
