package agwpe

import (
	"testing"
	"time"
)

// History: the TNC delivers an inbound connect frame for this station and the port's
// demultiplexer is closed right afterwards (TNC link lost / Port.Close).  The inbound
// watcher then calls newConn -> demux.Chain on the closed demux, which panics in a
// background goroutine: the process crashes.
func TestInboundConnectThenClose(t *testing.T) {
	p := &Port{mycall: "N0CALL", demux: newDemux()}
	p.inboundConns = p.handleInbound()
	time.Sleep(50 * time.Millisecond) // let the watcher register its subscription
	f := frame{header: header{DataKind: kindConnect, From: callsignFromString("LA5NTA"), To: callsignFromString("N0CALL")}, Data: []byte("*** CONNECTED To Station N0CALL\r")}
	p.demux.Enqueue(f)
	p.demux.Close()
	time.Sleep(300 * time.Millisecond)
}
