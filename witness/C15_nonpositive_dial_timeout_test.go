package telnet

import (
	"context"
	"net"
	"testing"
	"time"

	"github.com/la5nta/wl2k-go/transport"
)

// "Dialling returns no later than its context deadline or timeout, whatever the server fails to
// send": with ?dial_timeout=-1s (or 0s) the dialer's own timeout was switched off and dialling a
// silent server never returned.
func TestNonPositiveDialTimeout(t *testing.T) {
	ln, err := net.Listen("tcp", "127.0.0.1:0")
	if err != nil {
		t.Fatal(err)
	}
	defer ln.Close()
	go func() {
		for {
			c, err := ln.Accept()
			if err != nil {
				return
			}
			defer c.Close() // silent server
		}
	}()
	u, err := transport.ParseURL("telnet://N0CALL:pw@" + ln.Addr().String() + "/wl2k?dial_timeout=-1s")
	if err != nil {
		t.Fatal(err)
	}
	done := make(chan error, 1)
	go func() {
		_, err := Dialer{Timeout: 300 * time.Millisecond}.DialURLContext(context.Background(), u)
		done <- err
	}()
	select {
	case err := <-done:
		if err == nil {
			t.Fatal("expected an error")
		}
	case <-time.After(3 * time.Second):
		t.Fatal("DialURLContext still blocked after 3s (dialer timeout 300ms)")
	}
}
