package mailbox

import (
	"testing"

	"github.com/la5nta/wl2k-go/fbb"
)

// A remote station chooses the MID. A MID that starts with a dot was accepted and stored as a
// hidden file: Inbox() never lists it, yet a later proposal for it is answered "already received".
func TestHiddenMID(t *testing.T) {
	h := NewDirHandler(t.TempDir(), false)
	if err := h.Prepare(); err != nil {
		t.Fatal(err)
	}
	m := fbb.NewMessage(fbb.Private, "LA5NTA")
	m.AddTo("N0CALL")
	m.SetSubject("hidden")
	m.SetBody("body")
	m.Header.Set("Mid", ".HIDDEN00001")
	err := h.ProcessInbound(m)
	msgs, _ := h.Inbox()
	if err == nil && len(msgs) == 0 {
		t.Errorf("ProcessInbound reported success for MID %q but Inbox() lists %d messages (InboxCount %d)", m.MID(), len(msgs), h.InboxCount())
	}
}
