package ardop

import (
	"bufio"
	"bytes"
	"testing"
)

// Serial mode: a frame prefix "*;" announces the frame type. A stream of '*' bytes made
// readFrameOfType call itself once per two bytes without bound: 16 MB of '*' overflow the stack
// (fatal error, not recoverable) - malformed input from the TNC crashed the process.
func TestStarPrefixStream(t *testing.T) {
	rd := bufio.NewReader(bytes.NewReader(bytes.Repeat([]byte("*"), 16<<20)))
	if _, err := readFrameOfType('*', rd, false); err == nil {
		t.Fatal("expected an error")
	}
}
