package fbb

// Witness for the open C05 finding: the FBB answer 'H' ("message is accepted but will
// be held", docs/F6FBB-B2F/protocole.html: "5th message is accepted but will be held")
// is parsed as Defer, so the session does not transfer a message the peer has accepted
// and is waiting for.  The existing test TestParseProposalAnswer pins 'H' -> Defer.
//
//	cp /verif/witness/C05_held_answer_test.go <scratch copy of /repo>/fbb/zz_c05_witness_test.go
//	go test -vet=off -run TestC05HeldAnswer -v ./fbb/

import "testing"

func TestC05HeldAnswer(t *testing.T) {
	p := &Proposal{}
	if err := parseProposalAnswer("FS H", []*Proposal{p}, nil); err != nil {
		t.Fatal(err)
	}
	t.Logf("answer 'H' parsed as %q (Accept is %q, Defer is %q)", p.answer, Accept, Defer)
	if p.answer == Accept {
		t.Log("no finding: H is treated as accepted")
	} else {
		t.Log("FINDING: H (accepted, held) is not treated as accepted")
	}
}
