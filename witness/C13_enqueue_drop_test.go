package agwpe
import ("testing";"time")
func TestC13DropProbe(t *testing.T){
  d:=newDemux()
  frames,cancel:=d.Frames(0,framesFilter{})
  defer cancel()
  for i:=0;i<5;i++{ if !d.Enqueue(frame{header:header{DataKind:kindConnectedData},Data:[]byte{byte(i)}}) {t.Fatal("closed")}; time.Sleep(20*time.Millisecond) }
  var got []byte
  for { select { case f:=<-frames: got=append(got,f.Data[0]); continue; case <-time.After(300*time.Millisecond): }; break }
  t.Logf("enqueued 0..4, delivered %v", got)
  if len(got)==5 { t.Log("no drop") } else { t.Log("DROPPED") }
}
