package main

import (
	"go/token"
	"go/types"
	"math/big"

	"golang.org/x/tools/go/ssa"
)

// Bit-vector mode: every Go integer is a BitVec of its own width (exact
// machine semantics, including wrap-around and all bit operations).

func (ex *Exec) bvResize(t *Term, from, to types.Type) *Term {
	wf, sf := intWidth(from)
	wt, _ := intWidth(to)
	switch {
	case wt == wf:
		return t
	case wt < wf:
		return ex.tb.BVExtract(wt-1, 0, t)
	case sf:
		return ex.tb.BVSignExt(wt-wf, t)
	default:
		return ex.tb.BVZeroExt(wt-wf, t)
	}
}

func (ex *Exec) bvBinop(st *State, op token.Token, x, y *Value, rt types.Type, in ssa.Instruction) *Value {
	tb := ex.tb
	a, b := x.C[0], y.C[0]
	w, signed := intWidth(x.T)
	// shift counts may have a different width
	if op == token.SHL || op == token.SHR {
		wb := b.Sort.BVWidth()
		switch {
		case wb < w:
			b = tb.BVZeroExt(w-wb, b)
		case wb > w:
			// counts >= w give 0 (or sign fill); clamp
			big1 := tb.BV(big.NewInt(int64(w)), wb)
			over := tb.BVCmp("bvuge", b, big1)
			lowb := tb.BVExtract(w-1, 0, b)
			b = tb.Ite(over, tb.BV(big.NewInt(int64(w)), w), lowb)
		}
	}
	cmp := func(s, u string) *Value {
		if signed {
			return ex.boolV(tb.BVCmp(s, a, b))
		}
		return ex.boolV(tb.BVCmp(u, a, b))
	}
	zero := tb.BV(big.NewInt(0), w)
	switch op {
	case token.ADD:
		return ex.intV(tb.Add(a, b), rt)
	case token.SUB:
		return ex.intV(tb.Sub(a, b), rt)
	case token.MUL:
		return ex.intV(tb.Mul(a, b), rt)
	case token.QUO:
		ex.oblige(st, "div", ex.siteWhat(in), tb.Ne(b, zero), in, "integer divide by zero")
		if signed {
			return ex.intV(tb.BVOp("bvsdiv", a, b), rt)
		}
		return ex.intV(tb.BVOp("bvudiv", a, b), rt)
	case token.REM:
		ex.oblige(st, "div", ex.siteWhat(in), tb.Ne(b, zero), in, "integer divide by zero")
		if signed {
			return ex.intV(tb.BVOp("bvsrem", a, b), rt)
		}
		return ex.intV(tb.BVOp("bvurem", a, b), rt)
	case token.AND:
		return ex.intV(tb.BVOp("bvand", a, b), rt)
	case token.OR:
		return ex.intV(tb.BVOp("bvor", a, b), rt)
	case token.XOR:
		return ex.intV(tb.BVOp("bvxor", a, b), rt)
	case token.AND_NOT:
		return ex.intV(tb.BVOp("bvand", a, tb.BVNot(b)), rt)
	case token.SHL:
		return ex.intV(tb.BVOp("bvshl", a, b), rt)
	case token.SHR:
		if signed {
			return ex.intV(tb.BVOp("bvashr", a, b), rt)
		}
		return ex.intV(tb.BVOp("bvlshr", a, b), rt)
	case token.EQL:
		return ex.boolV(tb.Eq(a, b))
	case token.NEQ:
		return ex.boolV(tb.Ne(a, b))
	case token.LSS:
		return cmp("bvslt", "bvult")
	case token.LEQ:
		return cmp("bvsle", "bvule")
	case token.GTR:
		return cmp("bvsgt", "bvugt")
	case token.GEQ:
		return cmp("bvsge", "bvuge")
	}
	panic("bvBinop " + op.String())
}
