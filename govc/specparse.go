package main

// Contract files: comment-only Go files (build tag verif) in /repo, plus
// .spec files under /verif/spec for dependencies.  Contracts live in
// /*@ ... @*/ blocks (in .spec files the whole file is contract text).

import (
	"fmt"
	"go/types"
	"os"
	"strconv"
	"strings"

	"golang.org/x/tools/go/ssa"
)

// ---- expression AST ----

type Expr interface{}

type (
	EIdent  struct{ Name string }
	EInt    struct{ Val string }
	EStr    struct{ Val string }
	EBool   struct{ Val bool }
	ENil    struct{}
	EUnary  struct {
		Op string
		X  Expr
	}
	EBinary struct {
		Op   string
		X, Y Expr
	}
	ECall struct {
		Fun  string
		Args []Expr
	}
	EIndex struct{ X, I Expr }
	ESlice struct{ X, Lo, Hi Expr }
	EField struct {
		X    Expr
		Name string
	}
	EQuant struct {
		All  bool
		Vars []string
		Body Expr
	}
)

type Clause struct {
	Label   string
	Props   []string
	Expr    Expr
	Src     string
	Trusted bool // assumed at call sites, not proved from the body (inventoried)
}

type LoopContract struct {
	Invariants []*Clause
	Decreases  []Expr
	Exhaustive bool   // the loop is left only at its end or by returning from the function (no break)
	ReadsInput string // non-empty: terminates because every iteration consumes input (inventoried assumption)
}

type GhostSet struct {
	Name string
	Expr Expr
}

type CallClause struct {
	Callee   string // short name or "*.Method"
	Nth      int    // -1: every matching call site
	Requires []*Clause
	Assumes  []*Clause
	Sets     []GhostSet
}

type ModTarget struct {
	Kind  string // all, type, expr
	Name  string
	Field string
	Expr  Expr
}

type FuncContract struct {
	Name        string
	ParamNames  []string
	ResultNames []string
	Props       []string
	Requires    []*Clause
	Ensures     []*Clause
	Loops       map[int]*LoopContract
	Calls       []*CallClause
	Modifies    []ModTarget
	Pure        bool
	Functional  bool
	ForeignFuncs bool // function-typed results only touch foreign state when called
	FreshResult  bool // the (pointer) result is a newly allocated object nobody else references
	Trusted     bool
	Extern      bool
	InlineOnly  bool
	NoSafety    bool
	AllowPanic  Expr
	MapAccess   []*Clause // must hold at every map read/write in the function
	GlobalAccess map[string][]*Clause // package-level variable -> must hold at every load/store of it (or of a field of it)
	At          map[string][]*Clause // kind (append, return, go) -> must hold at every such instruction
	AtSets      map[string][]GhostSet // kind[#k] -> ghost updates at such instructions
	AllocBound  Expr
	Forbid      []ForbidRule
	Sets        []GhostSet
	Mode        string
	Replay      string
	Fn          *ssa.Function
	Pkg         *types.Package
	File        string
	Line        int
}

// ForbidRule: calls to functions whose short name starts with Prefix are
// forbidden in this function unless listed in Except.
type ForbidRule struct {
	Prefix string
	Except []string
	Props  []string
}

type PredDef struct {
	Name   string
	Params []string
	Body   Expr
	Pkg    *types.Package
}

type UFDef struct {
	Name   string
	Params []Sort
	Ret    Sort
	SMTDef string // raw SMT-LIB definition (define-fun-rec ...) emitted with every query that uses it
}

type Lemma struct {
	Name  string
	Props []string
	Expr  Expr
	Pkg   *types.Package
	File  string
}

type SpecFile struct {
	Path      string
	Pkg       *types.Package
	Funcs     []*FuncContract
	Preds     []*PredDef
	UFs       []*UFDef
	Axioms    []*Clause
	Lemmas    []*Lemma
	Ghosts    map[string]string            // name -> type text
	Abstracts map[string][][2]string       // type name -> fields (name,type)
	Consts    map[string]string
}

// ---- lexer ----

type tok struct {
	kind string // id, int, str, chr, op, eof
	text string
}

type lexer struct {
	src  string
	pos  int
	toks []tok
}

func lex(s string) ([]tok, error) {
	var out []tok
	i := 0
	for i < len(s) {
		c := s[i]
		switch {
		case c == ' ' || c == '\t' || c == '\n' || c == '\r':
			i++
		case c >= '0' && c <= '9':
			j := i
			for j < len(s) && (isAlnum(s[j]) || s[j] == '_') {
				j++
			}
			out = append(out, tok{"int", s[i:j]})
			i = j
		case isAlpha(c) || c == '_' || c == '$':
			j := i
			for j < len(s) && (isAlnum(s[j]) || s[j] == '_' || s[j] == '$') {
				j++
			}
			out = append(out, tok{"id", s[i:j]})
			i = j
		case c == '"' || c == '`':
			j := i + 1
			for j < len(s) && s[j] != c {
				if s[j] == '\\' && c == '"' {
					j++
				}
				j++
			}
			if j >= len(s) {
				return nil, fmt.Errorf("unterminated string in %q", s)
			}
			v, err := strconv.Unquote(s[i : j+1])
			if err != nil {
				return nil, fmt.Errorf("bad string literal %s: %v", s[i:j+1], err)
			}
			out = append(out, tok{"str", v})
			i = j + 1
		case c == '\'':
			j := i + 1
			for j < len(s) && s[j] != '\'' {
				if s[j] == '\\' {
					j++
				}
				j++
			}
			v, _, _, err := strconv.UnquoteChar(s[i+1:j], '\'')
			if err != nil {
				return nil, fmt.Errorf("bad char literal %s", s[i:j+1])
			}
			out = append(out, tok{"int", strconv.Itoa(int(v))})
			i = j + 1
		default:
			ops := []string{"<==>", "==>", "::", ":=", "&&", "||", "==", "!=", "<=", ">=", "<<", ">>", ".#"}
			matched := false
			for _, op := range ops {
				if strings.HasPrefix(s[i:], op) {
					out = append(out, tok{"op", op})
					i += len(op)
					matched = true
					break
				}
			}
			if !matched {
				out = append(out, tok{"op", string(c)})
				i++
			}
		}
	}
	out = append(out, tok{"eof", ""})
	return out, nil
}

func isAlpha(c byte) bool { return c >= 'a' && c <= 'z' || c >= 'A' && c <= 'Z' }
func isAlnum(c byte) bool { return isAlpha(c) || c >= '0' && c <= '9' }

type parser struct {
	toks []tok
	p    int
	src  string
}

func parseExpr(src string) (Expr, error) {
	toks, err := lex(src)
	if err != nil {
		return nil, err
	}
	p := &parser{toks: toks, src: src}
	var e Expr
	func() {
		defer func() {
			if r := recover(); r != nil {
				err = fmt.Errorf("parse error in %q: %v", src, r)
			}
		}()
		e = p.parseIff()
		if p.peek().kind != "eof" {
			panic("unexpected token " + p.peek().text)
		}
	}()
	return e, err
}

func (p *parser) peek() tok { return p.toks[p.p] }
func (p *parser) next() tok { t := p.toks[p.p]; p.p++; return t }
func (p *parser) isOp(s string) bool {
	t := p.peek()
	return t.kind == "op" && t.text == s
}
func (p *parser) expect(s string) {
	t := p.next()
	if t.text != s {
		panic(fmt.Sprintf("expected %q, got %q", s, t.text))
	}
}

func (p *parser) parseIff() Expr {
	x := p.parseImp()
	for p.isOp("<==>") {
		p.next()
		y := p.parseImp()
		x = &EBinary{"<==>", x, y}
	}
	return x
}
func (p *parser) parseImp() Expr {
	x := p.parseOr()
	if p.isOp("==>") {
		p.next()
		y := p.parseImp()
		return &EBinary{"==>", x, y}
	}
	return x
}
func (p *parser) parseOr() Expr {
	x := p.parseAnd()
	for p.isOp("||") {
		p.next()
		x = &EBinary{"||", x, p.parseAnd()}
	}
	return x
}
func (p *parser) parseAnd() Expr {
	x := p.parseCmp()
	for p.isOp("&&") {
		p.next()
		x = &EBinary{"&&", x, p.parseCmp()}
	}
	return x
}
func (p *parser) parseCmp() Expr {
	x := p.parseAdd()
	for {
		t := p.peek()
		if t.kind == "op" && (t.text == "==" || t.text == "!=" || t.text == "<" || t.text == "<=" || t.text == ">" || t.text == ">=") {
			p.next()
			y := p.parseAdd()
			// chained comparison a <= b < c
			n := &EBinary{t.text, x, y}
			t2 := p.peek()
			if t2.kind == "op" && (t2.text == "<" || t2.text == "<=" || t2.text == ">" || t2.text == ">=") && (t.text == "<" || t.text == "<=" || t.text == ">" || t.text == ">=") {
				p.next()
				z := p.parseAdd()
				return &EBinary{"&&", n, &EBinary{t2.text, y, z}}
			}
			x = n
			continue
		}
		return x
	}
}
func (p *parser) parseAdd() Expr {
	x := p.parseMul()
	for {
		t := p.peek()
		if t.kind == "op" && (t.text == "+" || t.text == "-" || t.text == "|" || t.text == "^") {
			p.next()
			x = &EBinary{t.text, x, p.parseMul()}
			continue
		}
		return x
	}
}
func (p *parser) parseMul() Expr {
	x := p.parseUnary()
	for {
		t := p.peek()
		if t.kind == "op" && (t.text == "*" || t.text == "/" || t.text == "%" || t.text == "&" || t.text == "<<" || t.text == ">>") {
			p.next()
			x = &EBinary{t.text, x, p.parseUnary()}
			continue
		}
		return x
	}
}
func (p *parser) parseUnary() Expr {
	t := p.peek()
	if t.kind == "op" && (t.text == "!" || t.text == "-" || t.text == "*") {
		p.next()
		return &EUnary{t.text, p.parseUnary()}
	}
	return p.parsePostfix()
}
func (p *parser) parsePostfix() Expr {
	x := p.parsePrimary()
	for {
		switch {
		case p.isOp("."):
			p.next()
			if p.isOp("(") { // receiver part of a method name: pkg.(*T).Method
				p.next()
				seg := "("
				if p.isOp("*") {
					p.next()
					seg += "*"
				}
				seg += p.next().text + ")"
				p.expect(")")
				x = &EField{x, seg}
				continue
			}
			n := p.next()
			x = &EField{x, n.text}
		case p.isOp(".#"):
			p.next()
			n := p.next()
			x = &EField{x, "#" + n.text}
		case p.isOp("["):
			p.next()
			var lo, hi Expr
			if !p.isOp(":") {
				lo = p.parseIff()
			}
			if p.isOp(":") {
				p.next()
				if !p.isOp("]") {
					hi = p.parseIff()
				}
				p.expect("]")
				x = &ESlice{x, lo, hi}
			} else {
				p.expect("]")
				x = &EIndex{x, lo}
			}
		case p.isOp("("):
			// call on identifier / qualified identifier
			name := exprName(x)
			if name == "" {
				panic("call of non-identifier")
			}
			p.next()
			var args []Expr
			for !p.isOp(")") {
				args = append(args, p.parseIff())
				if p.isOp(",") {
					p.next()
				}
			}
			p.expect(")")
			x = &ECall{name, args}
		default:
			return x
		}
	}
}

func exprName(x Expr) string {
	switch x := x.(type) {
	case *EIdent:
		return x.Name
	case *EField:
		if b := exprName(x.X); b != "" {
			return b + "." + x.Name
		}
	}
	return ""
}

func (p *parser) parsePrimary() Expr {
	t := p.next()
	switch t.kind {
	case "int":
		return &EInt{t.text}
	case "str":
		return &EStr{t.text}
	case "id":
		switch t.text {
		case "true":
			return &EBool{true}
		case "false":
			return &EBool{false}
		case "nil":
			return &ENil{}
		case "forall", "exists":
			var vars []string
			for {
				v := p.next()
				if v.kind != "id" {
					panic("quantifier variable expected")
				}
				vars = append(vars, v.text)
				if p.isOp(",") {
					p.next()
					continue
				}
				break
			}
			// optional type name
			if p.peek().kind == "id" {
				p.next()
			}
			p.expect("::")
			body := p.parseIff()
			return &EQuant{All: t.text == "forall", Vars: vars, Body: body}
		}
		return &EIdent{t.text}
	case "op":
		if t.text == "(" {
			e := p.parseIff()
			p.expect(")")
			return e
		}
	}
	panic("unexpected token " + t.text)
}

// ---- file parser ----

var clauseKeywords = map[string]bool{
	"func": true, "extern": true, "ensures_trusted": true, "props": true, "requires": true, "ensures": true, "modifies": true,
	"pure": true, "functional": true, "foreignfuncs": true, "fresh": true, "trusted": true, "loop": true, "call": true, "allowpanic": true, "mapaccess": true, "globalaccess": true, "at": true, "forbid": true, "allocbound": true, "set": true,
	"pred": true, "fn": true, "axiom": true, "lemma": true, "ghost": true, "abstract": true, "smtdef": true,
	"mode": true, "inline": true, "nosafety": true, "replay": true, "const": true, "package": true,
}

func extractBlocks(path string) (string, error) {
	data, err := os.ReadFile(path)
	if err != nil {
		return "", err
	}
	s := string(data)
	if strings.HasSuffix(path, ".spec") {
		return s, nil
	}
	var sb strings.Builder
	pos := 0
	for {
		i := strings.Index(s[pos:], "/*@")
		if i < 0 {
			break
		}
		i += pos
		j := strings.Index(s[i:], "@*/")
		if j < 0 {
			return "", fmt.Errorf("%s: unterminated /*@ block", path)
		}
		want := strings.Count(s[:i], "\n")
		have := strings.Count(sb.String(), "\n")
		if want > have {
			sb.WriteString(strings.Repeat("\n", want-have))
		}
		sb.WriteString(s[i+3 : i+j])
		pos = i + j + 3
	}
	return sb.String(), nil
}

func parseSpecFile(path string) (*SpecFile, error) {
	text, err := extractBlocks(path)
	if err != nil {
		return nil, err
	}
	sf := &SpecFile{Path: path, Ghosts: map[string]string{}, Abstracts: map[string][][2]string{}, Consts: map[string]string{}}
	// split into logical clauses
	type rawClause struct {
		kw   string
		rest string
		line int
	}
	var clauses []rawClause
	for ln, line := range strings.Split(text, "\n") {
		trim := strings.TrimSpace(line)
		if trim == "" || strings.HasPrefix(trim, "#") || strings.HasPrefix(trim, "//") {
			continue
		}
		// strip trailing comment
		if i := strings.Index(trim, " //"); i >= 0 && !strings.Contains(trim[:i], "\"") {
			trim = strings.TrimSpace(trim[:i])
		}
		if i := strings.Index(trim, " # "); i >= 0 && strings.Count(trim[:i], "\"")%2 == 0 {
			trim = strings.TrimSpace(trim[:i])
		}
		f := strings.Fields(trim)
		if clauseKeywords[f[0]] {
			clauses = append(clauses, rawClause{kw: f[0], rest: strings.TrimSpace(strings.TrimPrefix(trim, f[0])), line: ln + 1})
		} else {
			if len(clauses) == 0 {
				return nil, fmt.Errorf("%s:%d: text outside a clause: %s", path, ln+1, trim)
			}
			clauses[len(clauses)-1].rest += " " + trim
		}
	}
	var cur *FuncContract
	fail := func(c rawClause, f string, a ...interface{}) error {
		return fmt.Errorf("%s:%d: %s", path, c.line, fmt.Sprintf(f, a...))
	}
	for _, c := range clauses {
		switch c.kw {
		case "package":
		case "extern", "func":
			rest := c.rest
			ext := c.kw == "extern"
			if ext {
				rest = strings.TrimSpace(strings.TrimPrefix(rest, "func"))
			}
			fc, err := parseFuncHeader(rest)
			if err != nil {
				return nil, fail(c, "%v", err)
			}
			fc.Extern = ext
			fc.File = path
			fc.Line = c.line
			sf.Funcs = append(sf.Funcs, fc)
			cur = fc
		case "props":
			if cur == nil {
				return nil, fail(c, "props outside func")
			}
			cur.Props = strings.Fields(strings.ReplaceAll(c.rest, ",", " "))
		case "mode":
			cur.Mode = c.rest
		case "replay":
			cur.Replay = c.rest
		case "pure":
			cur.Pure = true
		case "functional":
			cur.Pure = true
			cur.Functional = true
		case "foreignfuncs":
			cur.ForeignFuncs = true
		case "fresh":
			cur.FreshResult = true
		case "trusted":
			cur.Trusted = true
		case "inline":
			cur.InlineOnly = true
		case "nosafety":
			cur.NoSafety = true
		case "requires", "ensures", "ensures_trusted":
			if cur == nil {
				return nil, fail(c, "%s outside func", c.kw)
			}
			cl, err := parseClause(c.rest)
			if err != nil {
				return nil, fail(c, "%v", err)
			}
			if c.kw == "requires" {
				cur.Requires = append(cur.Requires, cl)
			} else {
				cl.Trusted = c.kw == "ensures_trusted"
				cur.Ensures = append(cur.Ensures, cl)
			}
		case "allowpanic":
			e, err := parseExpr(c.rest)
			if err != nil {
				return nil, fail(c, "%v", err)
			}
			cur.AllowPanic = e
		case "globalaccess":
			// globalaccess NAME requires label: E
			f := strings.Fields(c.rest)
			if len(f) < 3 || f[1] != "requires" {
				return nil, fail(c, "globalaccess NAME requires ... expected")
			}
			cl, err := parseClause(strings.TrimSpace(strings.TrimPrefix(strings.TrimSpace(strings.TrimPrefix(c.rest, f[0])), "requires")))
			if err != nil {
				return nil, fail(c, "%v", err)
			}
			if cur.GlobalAccess == nil {
				cur.GlobalAccess = map[string][]*Clause{}
			}
			cur.GlobalAccess[f[0]] = append(cur.GlobalAccess[f[0]], cl)
		case "mapaccess":
			// mapaccess requires label: E
			cl, err := parseClause(strings.TrimSpace(strings.TrimPrefix(c.rest, "requires")))
			if err != nil {
				return nil, fail(c, "%v", err)
			}
			cur.MapAccess = append(cur.MapAccess, cl)
		case "forbid":
			// forbid PREFIX [except a, b, c]
			// forbid [C12 C11] PREFIX ... : the rule's obligations belong to these properties only
			rest := strings.TrimSpace(c.rest)
			var fprops []string
			if strings.HasPrefix(rest, "[") {
				if k := strings.Index(rest, "]"); k > 0 {
					fprops = strings.Fields(strings.ReplaceAll(rest[1:k], ",", " "))
					rest = strings.TrimSpace(rest[k+1:])
				}
			}
			f := strings.SplitN(rest, " except ", 2)
			fr := ForbidRule{Prefix: strings.TrimSpace(f[0]), Props: fprops}
			if len(f) == 2 {
				for _, x := range strings.Split(f[1], ",") {
					fr.Except = append(fr.Except, strings.TrimSpace(x))
				}
			}
			cur.Forbid = append(cur.Forbid, fr)
		case "at":
			// at KIND requires label: E
			f := strings.Fields(c.rest)
			if len(f) >= 3 && f[1] == "set" {
				// at KIND[#k] set g := E : ghost update performed at that instruction
				gs, err := parseSet(strings.TrimSpace(strings.TrimPrefix(strings.TrimSpace(strings.TrimPrefix(c.rest, f[0])), "set")))
				if err != nil {
					return nil, fail(c, "%v", err)
				}
				if cur.AtSets == nil {
					cur.AtSets = map[string][]GhostSet{}
				}
				cur.AtSets[f[0]] = append(cur.AtSets[f[0]], gs)
				break
			}
			if len(f) < 3 || f[1] != "requires" {
				return nil, fail(c, "at KIND requires ... expected")
			}
			body := strings.TrimSpace(strings.TrimPrefix(strings.TrimSpace(strings.TrimPrefix(c.rest, f[0])), "requires"))
			cl, err := parseClause(body)
			if err != nil {
				return nil, fail(c, "%v", err)
			}
			if cur.At == nil {
				cur.At = map[string][]*Clause{}
			}
			cur.At[f[0]] = append(cur.At[f[0]], cl)
		case "allocbound":
			e, err := parseExpr(c.rest)
			if err != nil {
				return nil, fail(c, "%v", err)
			}
			cur.AllocBound = e
		case "modifies":
			for _, part := range splitTop(c.rest, ',') {
				part = strings.TrimSpace(part)
				switch {
				case part == "all":
					cur.Modifies = append(cur.Modifies, ModTarget{Kind: "all"})
				case part == "foreign" || part == "data" || part == "maps":
					cur.Modifies = append(cur.Modifies, ModTarget{Kind: part})
				case part == "nothing":
					if cur.Modifies == nil {
						cur.Modifies = []ModTarget{}
					}
				case strings.HasPrefix(part, "type "):
					n := strings.TrimSpace(strings.TrimPrefix(part, "type "))
					mt := ModTarget{Kind: "type", Name: n}
					if i := strings.Index(n, ":"); i >= 0 {
						mt.Name, mt.Field = n[:i], n[i+1:]
					}
					cur.Modifies = append(cur.Modifies, mt)
				default:
					e, err := parseExpr(part)
					if err != nil {
						return nil, fail(c, "%v", err)
					}
					cur.Modifies = append(cur.Modifies, ModTarget{Kind: "expr", Expr: e})
				}
			}
		case "set":
			gs, err := parseSet(c.rest)
			if err != nil {
				return nil, fail(c, "%v", err)
			}
			cur.Sets = append(cur.Sets, gs)
		case "loop":
			f := strings.Fields(c.rest)
			if len(f) == 2 && f[1] == "exhaustive" {
				f = append(f, "")
			}
			if len(f) < 3 {
				return nil, fail(c, "loop clause too short")
			}
			n, err := strconv.Atoi(f[0])
			if err != nil {
				return nil, fail(c, "loop ordinal: %v", err)
			}
			if cur.Loops == nil {
				cur.Loops = map[int]*LoopContract{}
			}
			lc := cur.Loops[n]
			if lc == nil {
				lc = &LoopContract{}
				cur.Loops[n] = lc
			}
			body := strings.TrimSpace(strings.TrimPrefix(strings.TrimSpace(strings.TrimPrefix(c.rest, f[0])), f[1]))
			switch f[1] {
			case "invariant":
				cl, err := parseClause(body)
				if err != nil {
					return nil, fail(c, "%v", err)
				}
				lc.Invariants = append(lc.Invariants, cl)
			case "decreases":
				for _, part := range splitTop(body, ',') {
					e, err := parseExpr(part)
					if err != nil {
						return nil, fail(c, "%v", err)
					}
					lc.Decreases = append(lc.Decreases, e)
				}
			case "exhaustive":
				// loop K exhaustive: every element is visited unless the function returns
				lc.Exhaustive = true
			case "reads-input":
				// loop K reads-input <why>: every iteration consumes input from a reader that
				// eventually returns an error (end of input, deadline): an assumption, inventoried
				lc.ReadsInput = strings.TrimSpace(body)
				if lc.ReadsInput == "" {
					lc.ReadsInput = "each iteration consumes input"
				}
			default:
				return nil, fail(c, "unknown loop clause %s", f[1])
			}
		case "call":
			// call <callee>[#k] requires|assume|set ...
			f := strings.Fields(c.rest)
			if len(f) < 3 {
				return nil, fail(c, "call clause too short")
			}
			callee, nth := f[0], -1
			if i := strings.LastIndex(callee, "#"); i >= 0 {
				k, err := strconv.Atoi(callee[i+1:])
				if err == nil {
					nth = k
					callee = callee[:i]
				}
			}
			var cc *CallClause
			for _, x := range cur.Calls {
				if x.Callee == callee && x.Nth == nth {
					cc = x
				}
			}
			if cc == nil {
				cc = &CallClause{Callee: callee, Nth: nth}
				cur.Calls = append(cur.Calls, cc)
			}
			body := strings.TrimSpace(strings.TrimPrefix(strings.TrimSpace(strings.TrimPrefix(c.rest, f[0])), f[1]))
			switch f[1] {
			case "requires", "assume":
				cl, err := parseClause(body)
				if err != nil {
					return nil, fail(c, "%v", err)
				}
				if f[1] == "requires" {
					cc.Requires = append(cc.Requires, cl)
				} else {
					cc.Assumes = append(cc.Assumes, cl)
				}
			case "set":
				gs, err := parseSet(body)
				if err != nil {
					return nil, fail(c, "%v", err)
				}
				cc.Sets = append(cc.Sets, gs)
			default:
				return nil, fail(c, "unknown call clause %s", f[1])
			}
		case "pred":
			// pred Name(a, b) := Expr
			i := strings.Index(c.rest, ":=")
			if i < 0 {
				return nil, fail(c, "pred without :=")
			}
			hdr, body := strings.TrimSpace(c.rest[:i]), c.rest[i+2:]
			name, params, err := parseSig(hdr)
			if err != nil {
				return nil, fail(c, "%v", err)
			}
			e, err := parseExpr(body)
			if err != nil {
				return nil, fail(c, "%v", err)
			}
			sf.Preds = append(sf.Preds, &PredDef{Name: name, Params: params, Body: e})
			cur = nil
		case "fn":
			// fn name(Int, Int) Int   -- uninterpreted function with SMT sorts
			open := strings.Index(c.rest, "(")
			cls := strings.LastIndex(c.rest, ")")
			if open < 0 || cls < open {
				return nil, fail(c, "bad fn declaration")
			}
			name := strings.TrimSpace(c.rest[:open])
			var ps []Sort
			for _, s := range splitTop(c.rest[open+1:cls], ',') {
				if s = strings.TrimSpace(s); s != "" {
					ps = append(ps, sortFromText(s))
				}
			}
			sf.UFs = append(sf.UFs, &UFDef{Name: name, Params: ps, Ret: sortFromText(strings.TrimSpace(c.rest[cls+1:]))})
			cur = nil
		case "smtdef":
			// smtdef name(Sort, Sort) Ret := (raw SMT-LIB text of a define-fun-rec)
			i := strings.Index(c.rest, ":=")
			if i < 0 {
				return nil, fail(c, "smtdef without :=")
			}
			hdr, body := strings.TrimSpace(c.rest[:i]), strings.TrimSpace(c.rest[i+2:])
			open := strings.Index(hdr, "(")
			cls := -1
			for k, depth := open, 0; open >= 0 && k < len(hdr); k++ {
				if hdr[k] == '(' {
					depth++
				} else if hdr[k] == ')' {
					if depth--; depth == 0 {
						cls = k
						break
					}
				}
			}
			if open < 0 || cls < open {
				return nil, fail(c, "bad smtdef header")
			}
			var ps []Sort
			for _, x := range splitTop(hdr[open+1:cls], ',') {
				if x = strings.TrimSpace(x); x != "" {
					ps = append(ps, sortFromText(x))
				}
			}
			sf.UFs = append(sf.UFs, &UFDef{Name: strings.TrimSpace(hdr[:open]), Params: ps, Ret: sortFromText(strings.TrimSpace(hdr[cls+1:])), SMTDef: body})
			cur = nil
		case "axiom":
			cl, err := parseClause(c.rest)
			if err != nil {
				return nil, fail(c, "%v", err)
			}
			sf.Axioms = append(sf.Axioms, cl)
			cur = nil
		case "lemma":
			cl, err := parseClause(c.rest)
			if err != nil {
				return nil, fail(c, "%v", err)
			}
			sf.Lemmas = append(sf.Lemmas, &Lemma{Name: cl.Label, Props: cl.Props, Expr: cl.Expr, File: path})
			cur = nil
		case "ghost":
			// ghost var name type
			f := strings.Fields(c.rest)
			if len(f) != 3 || f[0] != "var" {
				return nil, fail(c, "ghost var NAME TYPE expected")
			}
			sf.Ghosts[f[1]] = f[2]
			cur = nil
		case "const":
			f := strings.SplitN(c.rest, "=", 2)
			if len(f) != 2 {
				return nil, fail(c, "const NAME = VALUE expected")
			}
			sf.Consts[strings.TrimSpace(f[0])] = strings.TrimSpace(f[1])
			cur = nil
		case "abstract":
			// abstract type pkg.Name { f1 T1; f2 T2 }
			rest := strings.TrimSpace(strings.TrimPrefix(c.rest, "type"))
			open := strings.Index(rest, "{")
			cls := strings.LastIndex(rest, "}")
			if open < 0 || cls < open {
				return nil, fail(c, "bad abstract type")
			}
			name := strings.TrimSpace(rest[:open])
			var fields [][2]string
			for _, f := range strings.Split(rest[open+1:cls], ";") {
				ff := strings.Fields(f)
				if len(ff) == 0 {
					continue
				}
				if len(ff) != 2 {
					return nil, fail(c, "bad abstract field %q", f)
				}
				fields = append(fields, [2]string{ff[0], ff[1]})
			}
			sf.Abstracts[name] = fields
			cur = nil
		default:
			return nil, fail(c, "unknown keyword %s", c.kw)
		}
	}
	return sf, nil
}

func sortFromText(s string) Sort {
	switch s {
	case "Int", "int":
		return SInt
	case "Bool", "bool":
		return SBool
	case "Arr", "arr":
		return SArr
	case "String", "string":
		return Sort("String")
	}
	return Sort(s)
}

func splitTop(s string, sep byte) []string {
	var out []string
	depth := 0
	inStr := false
	start := 0
	for i := 0; i < len(s); i++ {
		switch {
		case s[i] == '"':
			inStr = !inStr
		case inStr:
		case s[i] == '(' || s[i] == '[' || s[i] == '{':
			depth++
		case s[i] == ')' || s[i] == ']' || s[i] == '}':
			depth--
		case s[i] == sep && depth == 0:
			out = append(out, s[start:i])
			start = i + 1
		}
	}
	if strings.TrimSpace(s[start:]) != "" {
		out = append(out, s[start:])
	}
	return out
}

// parseClause: [label] [[P1,P2]] : expr   |   expr
func parseClause(s string) (*Clause, error) {
	s = strings.TrimSpace(s)
	cl := &Clause{Src: s}
	// label: identifier (with dashes) optionally followed by [props], then ':'
	i := 0
	for i < len(s) && (isAlnum(s[i]) || s[i] == '-' || s[i] == '_') {
		i++
	}
	j := i
	for j < len(s) && s[j] == ' ' {
		j++
	}
	var props []string
	if j < len(s) && s[j] == '[' {
		k := strings.Index(s[j:], "]")
		if k > 0 {
			inner := s[j+1 : j+k]
			ok := true
			for _, p := range strings.Fields(strings.ReplaceAll(inner, ",", " ")) {
				if len(p) < 3 || p[0] != 'C' {
					ok = false
				}
			}
			if ok {
				props = strings.Fields(strings.ReplaceAll(inner, ",", " "))
				j += k + 1
				for j < len(s) && s[j] == ' ' {
					j++
				}
			}
		}
	}
	if i > 0 && j < len(s) && s[j] == ':' && !strings.HasPrefix(s[j:], "::") && !strings.HasPrefix(s[j:], ":=") {
		cl.Label = s[:i]
		cl.Props = props
		s = s[j+1:]
	}
	e, err := parseExpr(s)
	if err != nil {
		return nil, err
	}
	cl.Expr = e
	if cl.Label == "" {
		cl.Label = shortLabel(cl.Src)
	}
	return cl, nil
}

func shortLabel(s string) string {
	s = strings.Join(strings.Fields(s), "")
	if len(s) > 40 {
		s = s[:40]
	}
	return s
}

func parseSet(s string) (GhostSet, error) {
	i := strings.Index(s, ":=")
	if i < 0 {
		return GhostSet{}, fmt.Errorf("set without :=")
	}
	e, err := parseExpr(s[i+2:])
	if err != nil {
		return GhostSet{}, err
	}
	return GhostSet{Name: strings.TrimSpace(s[:i]), Expr: e}, nil
}

func parseSig(hdr string) (string, []string, error) {
	open := strings.Index(hdr, "(")
	cls := strings.LastIndex(hdr, ")")
	if open < 0 || cls < open {
		return "", nil, fmt.Errorf("bad signature %q", hdr)
	}
	var ps []string
	for _, p := range splitTop(hdr[open+1:cls], ',') {
		f := strings.Fields(p)
		if len(f) > 0 {
			ps = append(ps, f[0])
		}
	}
	return strings.TrimSpace(hdr[:open]), ps, nil
}

// parseFuncHeader: NAME(p1 [T], p2 [T]) [(r1 [T], r2 [T]) | r]
func parseFuncHeader(s string) (*FuncContract, error) {
	s = strings.TrimSpace(s)
	// NAME may contain parentheses: pkg.(*T).Method — find the parameter list as
	// the first '(' that follows the last '.' segment start
	nameEnd := -1
	depth := 0
	for i := 0; i < len(s); i++ {
		switch s[i] {
		case '(':
			if depth == 0 && i > 0 && s[i-1] != '.' {
				nameEnd = i
			}
			depth++
		case ')':
			depth--
		}
		if nameEnd >= 0 {
			break
		}
	}
	if nameEnd < 0 {
		return nil, fmt.Errorf("bad func header %q", s)
	}
	name := strings.TrimSpace(s[:nameEnd])
	// params
	depth = 0
	pend := -1
	for i := nameEnd; i < len(s); i++ {
		if s[i] == '(' {
			depth++
		} else if s[i] == ')' {
			depth--
			if depth == 0 {
				pend = i
				break
			}
		}
	}
	if pend < 0 {
		return nil, fmt.Errorf("bad func header %q", s)
	}
	fc := &FuncContract{Name: name}
	for _, p := range splitTop(s[nameEnd+1:pend], ',') {
		f := strings.Fields(p)
		if len(f) > 0 {
			fc.ParamNames = append(fc.ParamNames, f[0])
		}
	}
	rest := strings.TrimSpace(s[pend+1:])
	if rest != "" {
		rest = strings.TrimSuffix(strings.TrimPrefix(rest, "("), ")")
		for _, p := range splitTop(rest, ',') {
			f := strings.Fields(p)
			if len(f) > 0 {
				fc.ResultNames = append(fc.ResultNames, f[0])
			}
		}
	}
	return fc, nil
}
