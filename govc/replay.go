package main

import (
	"sort"
	"go/constant"
	"encoding/json"
	"flag"
	"fmt"
	"go/types"
	"os"
	"os/exec"
	"path/filepath"
	"strconv"
	"strings"
	"time"

	"golang.org/x/tools/go/ssa"
)

type ReplayRecord struct {
	Property     string            `json:"property"`
	Obligation   string            `json:"obligation"`
	Position     string            `json:"position"`
	Verdict      string            `json:"verdict"` // reproduced | not-reproduced | no-model | not-replayable
	Summary      string            `json:"summary"`
	Inputs       map[string]string `json:"inputs,omitempty"`
	TestSource   string            `json:"test_source,omitempty"`
	TestOutput   string            `json:"test_output,omitempty"`
	SolverStatus string            `json:"solver_status"`
	SolverOutput string            `json:"solver_output"`
	Tried        []string          `json:"tried,omitempty"`
	ReplayCmd    string            `json:"replay_cmd,omitempty"`
	PkgDir       string            `json:"pkg_dir,omitempty"`
}

var panicKinds = map[string]bool{"index": true, "slice": true, "nil": true, "div": true, "make": true, "typeassert": true, "panic": true, "nilmap": true}

func buildReplay(p *Program, fr *FuncResult, ob *Obligation, query string, res SolveResult, repo string, skip bool, tag string) *ReplayRecord {
	rr := &ReplayRecord{SolverStatus: res.Status, SolverOutput: truncate(res.Raw, 4000)}
	if res.Status != "sat" {
		rr.Verdict = "no-model"
		rr.Summary = "solver returned " + res.Status + " (no counterexample); obligation not discharged"
		return rr
	}
	if ob.Entry == nil || ob.Entry.fn == nil {
		rr.Verdict = "not-replayable"
		rr.Summary = "no function entry (lemma)"
		return rr
	}
	ex := fr.Exec
	fn := ob.Entry.fn
	// which parameter kinds can be rebuilt generically?
	inputs, lits, ok, why := extractInputs(ex, ob, query, res.Solver, tag)
	rr.Inputs = inputs
	if !ok {
		rr.Verdict = "not-replayable"
		rr.Summary = "counterexample found by " + res.Solver + " but inputs cannot be rebuilt generically: " + why
		return rr
	}
	if fn.Signature.Recv() != nil || fn.Parent() != nil {
		rr.Verdict = "not-replayable"
		rr.Summary = "counterexample found (" + fmt.Sprint(inputs) + ") but method receivers are not rebuilt generically"
		return rr
	}
	if skip {
		rr.Verdict = "not-replayable"
		rr.Summary = "replay skipped by flag; model: " + fmt.Sprint(inputs)
		return rr
	}
	pkgDir := filepath.Dir(p.fset.Position(fn.Pos()).Filename)
	rr.PkgDir = pkgDir
	src := genReplayTest(fn, lits, ob)
	rr.TestSource = src
	out, err := runReplayTest(repo, pkgDir, fn.Pkg.Pkg.Name(), src, tag)
	rr.TestOutput = truncate(out, 4000)
	if err != nil && !strings.Contains(out, "GOVC-REPLAY") {
		rr.Verdict = "not-reproduced"
		rr.Summary = "replay test could not run: " + err.Error()
		return rr
	}
	if panicKinds[ob.Kind] {
		site := fmt.Sprintf("%s:%d", filepath.Base(ob.Pos.Filename), ob.Pos.Line)
		if strings.Contains(out, "GOVC-REPLAY: PANIC") && ob.Pos.IsValid() && !strings.Contains(out, site) {
			rr.Verdict = "not-reproduced"
			rr.Summary = "real code panicked on the model inputs " + fmt.Sprint(inputs) + " but not at " + site + ": " + firstLineWith(out, "GOVC-REPLAY: PANIC")
		} else if strings.Contains(out, "GOVC-REPLAY: PANIC") {
			rr.Verdict = "reproduced"
			line := out[strings.Index(out, "GOVC-REPLAY: PANIC"):]
			rr.Summary = strings.SplitN(line, "\n", 2)[0] + " with " + fmt.Sprint(inputs)
		} else {
			rr.Verdict = "not-reproduced"
			rr.Summary = "real code did not panic on the model inputs " + fmt.Sprint(inputs)
		}
		if rr.Verdict == "not-reproduced" {
			// the model may rest on an abstraction (e.g. an uninterpreted library function):
			// look for a concrete witness near it, built from the function's own string constants
			if src2, found, how := searchWitness(p, fn, lits, ob, repo, pkgDir, tag); found {
				rr.Verdict = "reproduced"
				rr.Summary = how + " (found by a search around the solver's model, which itself rests on an abstracted library function)"
				rr.TestSource = src2
			}
		}
		return rr
	}
	rr.Verdict = "not-replayable"
	rr.Summary = "counterexample inputs " + fmt.Sprint(inputs) + "; real code returned: " + firstLineWith(out, "GOVC-REPLAY") + " (postcondition not re-evaluated in Go)"
	return rr
}

func firstLineWith(s, sub string) string {
	for _, l := range strings.Split(s, "\n") {
		if strings.Contains(l, sub) {
			return l
		}
	}
	return ""
}

func truncate(s string, n int) string {
	if len(s) > n {
		return s[:n] + "...[truncated]"
	}
	return s
}

// extractInputs pulls parameter values out of a model in two phases: scalars
// first, then (with the scalars pinned) the bytes of strings / byte slices.
func extractInputs(ex *Exec, ob *Obligation, query, solver, tag string) (map[string]string, []string, bool, string) {
	tb := ex.tb
	inputs := map[string]string{}
	var lits []string
	type strReq struct {
		idx           int
		arr, off, ln  *Term
		isSlice       bool
	}
	show := func(t *Term) string {
		var sb strings.Builder
		tb.inline(&sb, t, nil, 0)
		return sb.String()
	}
	decl := func(q string, t *Term) string {
		// make sure every constant mentioned is declared
		var add strings.Builder
		var walk func(t *Term)
		seen := map[int]bool{}
		walk = func(t *Term) {
			if seen[t.id] {
				return
			}
			seen[t.id] = true
			if t.Op == "const" && !strings.Contains(q, "(declare-fun "+t.Name+" ") {
				fmt.Fprintf(&add, "(declare-fun %s () %s)\n", t.Name, t.Sort)
			}
			for _, a := range t.Args {
				walk(a)
			}
		}
		walk(t)
		return add.String()
	}
	var scalarNames []string
	var scalarTerms []*Term
	var strs []strReq
	extraDecl := ""
	for i, pv := range ob.Entry.params {
		switch u := pv.T.Underlying().(type) {
		case *types.Basic:
			switch {
			case u.Info()&types.IsString != 0:
				strs = append(strs, strReq{idx: i, arr: pv.C[0], off: pv.C[1], ln: pv.C[2]})
				scalarTerms = append(scalarTerms, pv.C[1], pv.C[2])
			case u.Info()&(types.IsInteger|types.IsBoolean) != 0:
				scalarTerms = append(scalarTerms, pv.C[0])
			case u.Info()&types.IsFloat != 0:
				scalarTerms = append(scalarTerms, pv.C[0])
			default:
				return inputs, nil, false, "parameter " + ob.Entry.names[i] + " of type " + pv.T.String()
			}
		case *types.Slice:
			if b, ok := u.Elem().Underlying().(*types.Basic); ok && b.Kind() == types.Uint8 && ex.oldState != nil {
				arr := tb.Select(ex.heapMap(ex.oldState, typeKey(sliceRootType(pv.T)), 0, ex.L.Backing(u.Elem())[0].Sort), pv.C[0])
				strs = append(strs, strReq{idx: i, arr: arr, off: pv.C[1], ln: pv.C[2], isSlice: true})
				scalarTerms = append(scalarTerms, pv.C[1], pv.C[2])
			} else {
				// other slices: only the length is taken from the model
				scalarTerms = append(scalarTerms, pv.C[2])
			}
		case *types.Pointer:
			scalarTerms = append(scalarTerms, pv.C[0])
		default:
			// interfaces, maps, funcs...: a zero value is used
		}
	}
	for _, t := range scalarTerms {
		extraDecl += decl(query+extraDecl, t)
		scalarNames = append(scalarNames, show(t))
	}
	q := query + extraDecl
	// prefer small witnesses: bound every string / slice length, relaxing stepwise
	var vals map[string]string
	ok := false
	var boundPins []string
	for _, bound := range []int{2, 8, 64, 1024, -1} {
		boundPins = nil
		if bound >= 0 {
			for _, s := range strs {
				boundPins = append(boundPins, fmt.Sprintf("(assert (<= %s %d))", show(s.ln), bound))
				boundPins = append(boundPins, fmt.Sprintf("(assert (<= %s %d))", show(s.off), 0))
			}
		}
		vals, ok = getValues(q, scalarNames, boundPins, tag+"a", solver, 20)
		if ok || len(strs) == 0 {
			break
		}
	}
	if !ok {
		return inputs, nil, false, "model query failed"
	}
	// phase 2
	var pins []string
	for _, n := range scalarNames {
		if v, ok := vals[n]; ok {
			pins = append(pins, fmt.Sprintf("(assert (= %s %s))", n, v))
		}
	}
	var byteNames []string
	type span struct{ lo, hi int }
	spans := map[int]span{}
	for _, s := range strs {
		lv, ok1 := parseSMTInt(vals[show(s.ln)])
		ov, ok2 := parseSMTInt(vals[show(s.off)])
		if !ok1 || !ok2 {
			return inputs, nil, false, "could not read string length from model"
		}
		if lv > 4096 {
			return inputs, nil, false, fmt.Sprintf("model string of length %d too long to replay", lv)
		}
		lo := len(byteNames)
		for k := int64(0); k < lv; k++ {
			t := tb.Select(s.arr, ex.idxLit(ov+k))
			extraDecl += decl(query+extraDecl, t)
			byteNames = append(byteNames, show(t))
		}
		spans[s.idx] = span{lo, len(byteNames)}
	}
	q = query + extraDecl
	bvals := map[string]string{}
	if len(byteNames) > 0 {
		bv, ok := getValues(q, byteNames, pins, tag+"b", solver, 30)
		if !ok {
			return inputs, nil, false, "model byte query failed"
		}
		bvals = bv
	}
	for i, pv := range ob.Entry.params {
		name := ob.Entry.names[i]
		switch u := pv.T.Underlying().(type) {
		case *types.Basic:
			switch {
			case u.Info()&types.IsString != 0:
				sp := spans[i]
				var bs []byte
				for _, n := range byteNames[sp.lo:sp.hi] {
					v, _ := parseSMTInt(bvals[n])
					bs = append(bs, byte(v))
				}
				lit := strconv.Quote(string(bs))
				if !isPrintable(bs) {
					lit = goBytesString(bs)
				}
				inputs[name] = lit
				lits = append(lits, convLit(pv.T, lit, fnPkgOf(ob.Entry.fn)))
			case u.Info()&types.IsBoolean != 0:
				inputs[name] = vals[show(pv.C[0])]
				lits = append(lits, convLit(pv.T, vals[show(pv.C[0])], fnPkgOf(ob.Entry.fn)))
			case u.Info()&types.IsInteger != 0:
				v, _ := parseSMTInt(vals[show(pv.C[0])])
				inputs[name] = fmt.Sprint(v)
				lits = append(lits, convLit(pv.T, fmt.Sprint(v), fnPkgOf(ob.Entry.fn)))
			case u.Info()&types.IsFloat != 0:
				f, ok := parseSMTFloat(vals[show(pv.C[0])])
				if !ok {
					return inputs, nil, false, "could not parse float model value " + vals[show(pv.C[0])]
				}
				inputs[name] = f
				lits = append(lits, convLit(pv.T, f, fnPkgOf(ob.Entry.fn)))
			}
		case *types.Slice:
			if b, ok := u.Elem().Underlying().(*types.Basic); ok && b.Kind() == types.Uint8 && ex.oldState != nil {
				sp := spans[i]
				var bs []byte
				for _, n := range byteNames[sp.lo:sp.hi] {
					v, _ := parseSMTInt(bvals[n])
					bs = append(bs, byte(v))
				}
				lit := "[]byte(" + goBytesString(bs) + ")"
				inputs[name] = lit
				lits = append(lits, lit)
				break
			}
			n, _ := parseSMTInt(vals[show(pv.C[2])])
			if n > 64 {
				n = 64
			}
			ts := typeText(pv.T, fnPkgOf(ob.Entry.fn))
			var elems []string
			for k := int64(0); k < n; k++ {
				elems = append(elems, defaultLit(u.Elem(), fnPkgOf(ob.Entry.fn), true))
			}
			lit := ts + "{" + strings.Join(elems, ", ") + "}"
			inputs[name] = fmt.Sprintf("%s (length %d from model, default elements)", ts, n)
			lits = append(lits, lit)
		case *types.Pointer:
			ref, _ := parseSMTInt(vals[show(pv.C[0])])
			lit := defaultLit(pv.T, fnPkgOf(ob.Entry.fn), ref != 0)
			inputs[name] = lit + " (default object)"
			lits = append(lits, lit)
		default:
			lit := defaultLit(pv.T, fnPkgOf(ob.Entry.fn), false)
			inputs[name] = lit + " (default)"
			lits = append(lits, lit)
		}
	}
	return inputs, lits, true, ""
}

func typeText(t types.Type, pkg *types.Package) string {
	return types.TypeString(t, func(p *types.Package) string {
		if p == pkg {
			return ""
		}
		return p.Name()
	})
}

// defaultLit builds a plausible default Go value of type t for replay.
func defaultLit(t types.Type, pkg *types.Package, nonNil bool) string {
	ts := typeText(t, pkg)
	switch ts {
	case "*bufio.Reader":
		return "bufio.NewReader(strings.NewReader(\"\"))"
	case "*bufio.Writer":
		return "bufio.NewWriter(io.Discard)"
	}
	switch u := t.Underlying().(type) {
	case *types.Pointer:
		if !nonNil {
			return "(" + ts + ")(nil)"
		}
		return "new(" + typeText(u.Elem(), pkg) + ")"
	case *types.Basic:
		if u.Info()&types.IsString != 0 {
			return ts + "(\"\")"
		}
		if u.Info()&types.IsBoolean != 0 {
			return ts + "(false)"
		}
		return ts + "(0)"
	}
	return "*new(" + ts + ")"
}

func fnPkgOf(fn *ssa.Function) *types.Package {
	if fn.Pkg != nil {
		return fn.Pkg.Pkg
	}
	return nil
}

func convLit(t types.Type, lit string, pkg *types.Package) string {
	ts := types.TypeString(t, func(p *types.Package) string {
		if p == pkg {
			return ""
		}
		return p.Name()
	})
	return ts + "(" + lit + ")"
}

func isPrintable(bs []byte) bool {
	for _, b := range bs {
		if b < 0x20 || b > 0x7e {
			return false
		}
	}
	return true
}

func goBytesString(bs []byte) string {
	var sb strings.Builder
	sb.WriteByte('"')
	for _, b := range bs {
		if b >= 0x20 && b <= 0x7e && b != '"' && b != '\\' {
			sb.WriteByte(b)
		} else {
			fmt.Fprintf(&sb, "\\x%02x", b)
		}
	}
	sb.WriteByte('"')
	return sb.String()
}

// parseSMTFloat converts (fp #b0 #b... #x...) to a Go hex-float expression via math.Float64frombits.
func parseSMTFloat(s string) (string, bool) {
	s = strings.TrimSpace(s)
	if strings.HasPrefix(s, "(fp ") {
		f := strings.Fields(strings.TrimSuffix(strings.TrimPrefix(s, "(fp "), ")"))
		if len(f) != 3 {
			return "", false
		}
		bits := func(x string) (uint64, int, bool) {
			var v uint64
			if strings.HasPrefix(x, "#b") {
				for _, c := range x[2:] {
					v = v*2 + uint64(c-'0')
				}
				return v, len(x) - 2, true
			}
			if strings.HasPrefix(x, "#x") {
				fmt.Sscanf(x[2:], "%x", &v)
				return v, 4 * (len(x) - 2), true
			}
			return 0, 0, false
		}
		sg, _, ok1 := bits(f[0])
		e, _, ok2 := bits(f[1])
		m, _, ok3 := bits(f[2])
		if !ok1 || !ok2 || !ok3 {
			return "", false
		}
		return fmt.Sprintf("math.Float64frombits(0x%016x)", sg<<63|e<<52|m), true
	}
	switch {
	case strings.Contains(s, "+zero"):
		return "0.0", true
	case strings.Contains(s, "-zero"):
		return "math.Copysign(0, -1)", true
	case strings.Contains(s, "+oo"):
		return "math.Inf(1)", true
	case strings.Contains(s, "-oo"):
		return "math.Inf(-1)", true
	case strings.Contains(s, "NaN"):
		return "math.NaN()", true
	}
	return "", false
}

func genReplayTest(fn *ssa.Function, lits []string, ob *Obligation) string {
	var sb strings.Builder
	fmt.Fprintf(&sb, "package %s\n\nimport (\n\t\"bufio\"\n\t\"fmt\"\n\t\"io\"\n\t\"math\"\n\t\"runtime/debug\"\n\t\"strings\"\n\t\"testing\"\n)\n\nvar _ = math.Abs\nvar _ = bufio.NewReader\nvar _ = io.Discard\nvar _ = strings.NewReader\n\n", fn.Pkg.Pkg.Name())
	fmt.Fprintf(&sb, "// generated by govc for obligation %s\n", ob.Name)
	sb.WriteString("func TestGovcReplay(t *testing.T) {\n")
	sb.WriteString("\tdefer func() {\n\t\tif r := recover(); r != nil {\n\t\t\tfmt.Printf(\"GOVC-REPLAY: PANIC %v\\n%s\\n\", r, debug.Stack())\n\t\t}\n\t}()\n")
	nres := fn.Signature.Results().Len()
	call := fmt.Sprintf("%s(%s)", fn.Name(), strings.Join(lits, ", "))
	if nres == 0 {
		fmt.Fprintf(&sb, "\t%s\n\tfmt.Printf(\"GOVC-REPLAY: RETURNED\\n\")\n", call)
	} else {
		var rs []string
		for i := 0; i < nres; i++ {
			rs = append(rs, fmt.Sprintf("r%d", i))
		}
		fmt.Fprintf(&sb, "\t%s := %s\n", strings.Join(rs, ", "), call)
		fmt.Fprintf(&sb, "\tfmt.Printf(\"GOVC-REPLAY: RETURNED %s\\n\", %s)\n", strings.Repeat("%#v ", nres), strings.Join(rs, ", "))
	}
	sb.WriteString("}\n")
	return sb.String()
}

func goEnv() []string {
	return os.Environ()
}

func runReplayTest(repo, pkgDir, pkgName, src, tag string) (string, error) {
	dir := filepath.Join(scratchDir(), fmt.Sprintf("replay_%d_%s", os.Getpid(), tag))
	os.MkdirAll(dir, 0o755)
	defer os.RemoveAll(dir)
	testFile := filepath.Join(dir, "zz_govc_replay_test.go")
	os.WriteFile(testFile, []byte(src), 0o644)
	ov := map[string]map[string]string{"Replace": {filepath.Join(pkgDir, "zz_govc_replay_test.go"): testFile}}
	ovData, _ := json.Marshal(ov)
	ovFile := filepath.Join(dir, "overlay.json")
	os.WriteFile(ovFile, ovData, 0o644)
	rel, _ := filepath.Rel(repo, pkgDir)
	cmd := exec.Command("go", "test", "-overlay", ovFile, "-vet=off", "-count=1", "-v", "-timeout", "60s", "-run", "^TestGovcReplay$", "./"+rel)
	cmd.Dir = repo
	cmd.Env = goEnv()
	done := make(chan struct{})
	var out []byte
	var err error
	go func() { out, err = cmd.CombinedOutput(); close(done) }()
	select {
	case <-done:
	case <-time.After(180 * time.Second):
		if cmd.Process != nil {
			cmd.Process.Kill()
		}
		<-done
	}
	return string(out), err
}

// cmdReplay re-runs a recorded violation against the repository's current tree:
// the generated in-package test, when the record has one, and the named obligation.
func cmdReplay(args []string) int {
	fs := flag.NewFlagSet("replay", flag.ExitOnError)
	repo := fs.String("repo", "/repo", "repository working tree")
	file := fs.String("file", "", "replay record (json)")
	spec := fs.String("spec", "/verif/spec", "extern spec directory")
	fs.Parse(args)
	data, err := os.ReadFile(*file)
	if err != nil {
		fmt.Fprintln(os.Stderr, err)
		return 2
	}
	var rr ReplayRecord
	if err := json.Unmarshal(data, &rr); err != nil {
		fmt.Fprintln(os.Stderr, err)
		return 2
	}
	fmt.Printf("replay: property=%s obligation=%s recorded verdict=%s\n", rr.Property, rr.Obligation, rr.Verdict)
	fmt.Printf("replay: %s\n", rr.Summary)
	rc := 0
	if rr.TestSource != "" && rr.PkgDir != "" {
		pkgDir := rr.PkgDir
		if rel, err := filepath.Rel("/repo", rr.PkgDir); err == nil && !strings.HasPrefix(rel, "..") {
			pkgDir = filepath.Join(*repo, rel)
		}
		out, _ := runReplayTest(*repo, pkgDir, "", rr.TestSource, "re")
		for _, l := range strings.Split(out, "\n") {
			if strings.Contains(l, "GOVC-REPLAY") {
				fmt.Println("replay test: " + strings.TrimSpace(l))
			}
		}
		if strings.Contains(out, "GOVC-REPLAY: PANIC") {
			rc = 1
		}
	} else {
		fmt.Println("replay test: none recorded (no model, or inputs not rebuildable): re-checking the obligation only")
	}
	// re-check the obligation on the current tree
	fn := rr.Obligation
	if i := strings.Index(fn, "/"); i >= 0 {
		fn = fn[:i]
	}
	self, _ := os.Executable()
	cmd := exec.Command(self, "check", "-repo", *repo, "-prop", rr.Property, "-spec", *spec, "-func", fn, "-noreplay", "-v", "-replays", filepath.Join(scratchDir(), "replay_recheck"))
	out, _ := cmd.CombinedOutput()
	still := false
	for _, l := range strings.Split(string(out), "\n") {
		if strings.Contains(l, rr.Obligation) && (strings.HasPrefix(strings.TrimSpace(l), "failed") || strings.HasPrefix(strings.TrimSpace(l), "undecided")) {
			still = true
			fmt.Println("obligation now: " + strings.TrimSpace(l))
		}
	}
	os.RemoveAll(filepath.Join(scratchDir(), "replay_recheck"))
	if still {
		fmt.Printf("VIOLATION property=%s replay=%s obligation=%s still fails on this tree\n", rr.Property, *file, rr.Obligation)
		return 1
	}
	fmt.Println("obligation now: discharged (or no longer generated) on this tree")
	return rc
}


// searchWitness tries variations of the string arguments (the string constants of the
// function, with small edits) on the real code and reports the first that panics at the
// obligation's site.  It only serves to demonstrate a violation the verifier already found.
func searchWitness(p *Program, fn *ssa.Function, lits []string, ob *Obligation, repo, pkgDir, tag string) (string, bool, string) {
	if !ob.Pos.IsValid() {
		return "", false, ""
	}
	var strIdx []int
	for i := 0; i < fn.Signature.Params().Len(); i++ {
		if b, ok := fn.Signature.Params().At(i).Type().Underlying().(*types.Basic); ok && b.Kind() == types.String {
			strIdx = append(strIdx, i)
		}
	}
	if len(strIdx) == 0 || len(lits) != fn.Signature.Params().Len() || fn.Signature.Recv() != nil {
		return "", false, ""
	}
	consts := map[string]bool{}
	var collect func(f *ssa.Function, depth int)
	collect = func(f *ssa.Function, depth int) {
		for _, b := range f.Blocks {
			for _, in := range b.Instrs {
				for _, op := range in.Operands(nil) {
					if c, ok := (*op).(*ssa.Const); ok && c.Value != nil && c.Value.Kind() == constant.String {
						consts[constant.StringVal(c.Value)] = true
					}
				}
				if call, ok := in.(ssa.CallInstruction); ok && depth < 2 {
					if cf := call.Common().StaticCallee(); cf != nil && p.inRepo(cf) && len(cf.Blocks) > 0 {
						collect(cf, depth+1)
					}
				}
			}
		}
	}
	collect(fn, 0)
	var base []string
	for c := range consts {
		if len(c) > 0 && len(c) <= 40 {
			base = append(base, c)
		}
	}
	sort.Strings(base)
	cands := []string{"", " ", "\x00", "\r", "a"}
	for _, c := range base {
		cands = append(cands, c, c+" ", c+"\r", " "+c, c+c, c[:len(c)-1], c+" "+c, c+" 1", c+" x")
		if len(cands) > 400 {
			break
		}
	}
	site := fmt.Sprintf("%s:%d", filepath.Base(ob.Pos.Filename), ob.Pos.Line)
	var sb strings.Builder
	fmt.Fprintf(&sb, "package %s\n\nimport (\n\t\"fmt\"\n\t\"runtime/debug\"\n\t\"strings\"\n\t\"testing\"\n)\n\n", fn.Pkg.Pkg.Name())
	fmt.Fprintf(&sb, "// generated by govc for obligation %s: witness search\n", ob.Name)
	sb.WriteString("func TestGovcReplay(t *testing.T) {\n\tcands := []string{")
	for _, c := range cands {
		fmt.Fprintf(&sb, "%s, ", strconv.Quote(c))
	}
	sb.WriteString("}\n")
	fmt.Fprintf(&sb, "\tfor _, c := range cands {\n\t\tfor which := 0; which < %d; which++ {\n\t\t\tif try(c, which) {\n\t\t\t\treturn\n\t\t\t}\n\t\t}\n\t}\n\tfmt.Printf(\"GOVC-REPLAY: NO-WITNESS\\n\")\n}\n\n", len(strIdx))
	sb.WriteString("func try(c string, which int) (found bool) {\n\tdefer func() {\n\t\tif r := recover(); r != nil {\n\t\t\tst := string(debug.Stack())\n")
	fmt.Fprintf(&sb, "\t\t\tif strings.Contains(st, %s) {\n\t\t\t\tfmt.Printf(\"GOVC-REPLAY: PANIC %%v with string argument #%%d = %%q\\n%%s\\n\", r, which, c, st)\n\t\t\t\tfound = true\n\t\t\t}\n\t\t}\n\t}()\n", strconv.Quote(site))
	args := append([]string(nil), lits...)
	sb.WriteString("\tswitch which {\n")
	for k, i := range strIdx {
		a := append([]string(nil), args...)
		a[i] = "c"
		fmt.Fprintf(&sb, "\tcase %d:\n\t\t%s(%s)\n", k, fn.Name(), strings.Join(a, ", "))
	}
	sb.WriteString("\t}\n\treturn false\n}\n")
	src := sb.String()
	out, _ := runReplayTest(repo, pkgDir, fn.Pkg.Pkg.Name(), src, tag+"w")
	if i := strings.Index(out, "GOVC-REPLAY: PANIC"); i >= 0 {
		line := strings.SplitN(out[i:], "\n", 2)[0]
		return src, true, line
	}
	return src, false, ""
}
