package main

import (
	"go/constant"
	"sort"
	"os"
	"fmt"
	"go/token"
	"go/types"
	"math"
	"strconv"
	"strings"

	"golang.org/x/tools/go/ssa"
)

func fpLiteral(f float64) string {
	bits := math.Float64bits(f)
	sign := bits >> 63
	exp := (bits >> 52) & 0x7ff
	man := bits & ((1 << 52) - 1)
	return fmt.Sprintf("(fp #b%d #b%011b #x%013x)", sign, exp, man)
}

// ---- naming ----

func funcShortName(fn *ssa.Function) string {
	if fn == nil {
		return "?"
	}
	if fn.Parent() != nil {
		// anonymous function: parent$N
		return funcShortName(fn.Parent()) + strings.TrimPrefix(fn.Name(), fn.Parent().Name())
	}
	pkg := ""
	if fn.Pkg != nil {
		pkg = fn.Pkg.Pkg.Name()
	} else if fn.Object() != nil && fn.Object().Pkg() != nil {
		pkg = fn.Object().Pkg().Name()
	}
	if recv := fn.Signature.Recv(); recv != nil {
		rt := recv.Type()
		star := ""
		if p, ok := rt.(*types.Pointer); ok {
			star = "*"
			rt = p.Elem()
		}
		tn := rt.String()
		if n, ok := rt.(*types.Named); ok {
			tn = n.Obj().Name()
			if n.Obj().Pkg() != nil {
				pkg = n.Obj().Pkg().Name()
			}
		}
		return fmt.Sprintf("%s.(%s%s).%s", pkg, star, tn, fn.Name())
	}
	return pkg + "." + fn.Name()
}

// ---- call dispatch ----

// call wraps callInner with the call-site clauses of the enclosing contract.
func (ex *Exec) call(fr *Frame, st *State, c *ssa.CallCommon, site ssa.Instruction) *Value {
	name := callName(c)
	var argVals []*Value
	if name != "" && ex.discover == nil && len(ex.callSiteClauses(fr, name, ex.prog.callOrdinal(site, name))) > 0 {
		if c.IsInvoke() {
			argVals = append(argVals, ex.eval(fr, st, c.Value))
		}
		for _, a := range c.Args {
			argVals = append(argVals, ex.eval(fr, st, a))
		}
	}
	return ex.withCallClauses(fr, st, name, site, argVals, func() *Value { return ex.callInner(fr, st, c, site) })
}

func callName(c *ssa.CallCommon) string {
	if c.IsInvoke() {
		return ifaceMethodName(c.Value.Type(), c.Method)
	} else if callee := c.StaticCallee(); callee != nil {
		return funcShortName(callee)
	} else if fn := funcFieldName(c.Value); fn != "" {
		return fn
	}
	return ""
}

// withCallClauses checks the contract's call-site requires, runs the call, then
// applies the call-site assumes and ghost updates.  argVals: receiver (for
// interface calls) followed by the arguments.
func (ex *Exec) withCallClauses(fr *Frame, st *State, name string, site ssa.Instruction, argVals []*Value, do func() *Value) *Value {
	if name != "" && ex.discover == nil {
		ex.forbidCheck(fr, st, name, site)
	}
	var clauses []*CallClause
	if name != "" && ex.discover == nil {
		clauses = ex.callSiteClauses(fr, name, ex.prog.callOrdinal(site, name))
	}
	if len(clauses) == 0 {
		return do()
	}
	env := ex.specEnv(fr, st, site.Pos())
	env.loopIdx = ex.enclosingRangeIdx(fr, site)
	for i, a := range argVals {
		env.vars[fmt.Sprintf("$%d", i)] = a
	}
	what := ex.siteWhat(site)
	for _, cc := range clauses {
		for _, r := range cc.Requires {
			ex.curClause = "call " + cc.Callee + " requires " + r.Label
			cond := ex.evalSpecBool(env, r.Expr)
			ex.obligeSpec(st, "callpre", what+":"+r.Label, cond, r, site)
		}
	}
	pre := st.clone()
	res := do()
	env.st = st
	env.old = pre
	if res != nil {
		env.vars["$r"] = res
		if tt, ok := res.T.(*types.Tuple); ok {
			for i := 0; i < tt.Len(); i++ {
				env.vars[fmt.Sprintf("$r%d", i)] = ex.extract(res, i)
			}
		} else {
			env.vars["$r0"] = res
		}
	}
	for _, cc := range clauses {
		for _, a := range cc.Assumes {
			ex.assume(st, ex.evalSpecBool(env, a.Expr))
			ex.usedExterns["call-site assumption in "+funcShortName(fr.fn)+": "+a.Label] = true
		}
		for _, g := range cc.Sets {
			ex.curClause = "call " + cc.Callee + " set " + g.Name
			ex.setGhost(st, g.Name, ex.evalSpec(env, g.Expr))
		}
	}
	return res
}

func (ex *Exec) callInner(fr *Frame, st *State, c *ssa.CallCommon, site ssa.Instruction) *Value {
	var args []*Value
	sig := c.Signature()
	resT := sig.Results()
	var retT types.Type
	switch resT.Len() {
	case 0:
	case 1:
		retT = resT.At(0).Type()
	default:
		retT = resT
	}

	if b, ok := c.Value.(*ssa.Builtin); ok {
		for _, a := range c.Args {
			args = append(args, ex.eval(fr, st, a))
		}
		return ex.builtin(fr, st, b.Name(), args, retT, site)
	}

	if c.IsInvoke() {
		recv := ex.eval(fr, st, c.Value)
		for _, a := range c.Args {
			args = append(args, ex.eval(fr, st, a))
		}
		ex.oblige(st, "nil", ex.siteWhat(site), ex.tb.Ne(recv.C[0], ex.tb.Int(0)), site, "method call on nil interface")
		// static dispatch when the dynamic type is known
		if recv.I != nil {
			if m := ex.prog.lookupMethod(recv.I.T, c.Method); m != nil {
				return ex.callFunction(fr, st, m, append([]*Value{recv.I}, args...), nil, retT, site)
			}
		}
		name := ifaceMethodName(c.Value.Type(), c.Method)
		if spec := ex.prog.externFor(name); spec != nil {
			return ex.callSpec(fr, st, spec, append([]*Value{recv}, args...), retT, site)
		}
		if spec := ex.prog.externFor("*." + c.Method.Name()); spec != nil {
			return ex.callSpec(fr, st, spec, append([]*Value{recv}, args...), retT, site)
		}
		return ex.unknownCall(st, name, append([]*Value{recv}, args...), retT, site)
	}

	for _, a := range c.Args {
		args = append(args, ex.eval(fr, st, a))
	}
	if callee := c.StaticCallee(); callee != nil {
		var bindings []*Value
		if mc, ok := c.Value.(*ssa.MakeClosure); ok {
			bindings = ex.eval(fr, st, mc).F.Bindings
		}
		return ex.callFunction(fr, st, callee, args, bindings, retT, site)
	}
	fv := ex.eval(fr, st, c.Value)
	if fv.F != nil && fv.F.Fn != nil {
		return ex.callFunction(fr, st, fv.F.Fn, args, fv.F.Bindings, retT, site)
	}
	if fv.F != nil && fv.F.Builtin == "$foreignfunc" {
		ex.havocClass(st, clsForeign)
		if ex.discover != nil {
			ex.discover.classes[clsForeign] = true
		}
		if retT == nil {
			return nil
		}
		hv, facts := ex.havoc(retT, "ret.foreignfunc")
		ex.assume(st, facts)
		return hv
	}
	ex.oblige(st, "nil", ex.siteWhat(site), ex.tb.Ne(fv.C[0], ex.refLit(0)), site, "call of nil function value")
	if fname := funcFieldName(c.Value); fname != "" {
		if spec := ex.prog.externFor(fname); spec != nil {
			return ex.callSpec(fr, st, spec, args, retT, site)
		}
	}
	return ex.unknownCall(st, "funcvalue:"+c.Value.Name(), args, retT, site)
}

func ifaceMethodName(t types.Type, m *types.Func) string {
	if n, ok := t.(*types.Named); ok {
		pkg := ""
		if n.Obj().Pkg() != nil {
			pkg = n.Obj().Pkg().Name() + "."
		}
		return pkg + n.Obj().Name() + "." + m.Name()
	}
	if m.Pkg() != nil {
		// method of an embedded / anonymous interface: find its declaring interface if named
		if recv := m.Type().(*types.Signature).Recv(); recv != nil {
			if n, ok := recv.Type().(*types.Named); ok {
				pkg := ""
				if n.Obj().Pkg() != nil {
					pkg = n.Obj().Pkg().Name() + "."
				}
				return pkg + n.Obj().Name() + "." + m.Name()
			}
		}
	}
	return "*." + m.Name()
}

func (ex *Exec) callFunction(fr *Frame, st *State, callee *ssa.Function, args []*Value, bindings []*Value, retT types.Type, site ssa.Instruction) *Value {
	name := funcShortName(callee)
	// intrinsics with native models
	if r, ok := ex.intrinsic(fr, st, name, callee, args, retT, site); ok {
		return r
	}
	if c := ex.prog.contractByName(name); c != nil && !c.InlineOnly {
		return ex.callSpec(fr, st, c, args, retT, site)
	}
	if spec := ex.prog.externFor(name); spec != nil {
		return ex.callSpec(fr, st, spec, args, retT, site)
	}
	if len(callee.Blocks) > 0 && ex.prog.inRepo(callee) && len(ex.stack)-ex.stackBase < 6 && !ex.onStack(callee) {
		return ex.inlineCall(fr, st, callee, args, bindings, retT, site)
	}
	if callee.Synthetic != "" && len(callee.Blocks) > 0 && len(ex.stack)-ex.stackBase < 6 && !ex.onStack(callee) {
		// wrappers / bound methods / thunks
		return ex.inlineCall(fr, st, callee, args, bindings, retT, site)
	}
	return ex.unknownCall(st, name, args, retT, site)
}

func (ex *Exec) onStack(fn *ssa.Function) bool {
	for _, f := range ex.stack {
		if f == fn {
			return true
		}
	}
	return false
}

func (ex *Exec) inlineCall(fr *Frame, st *State, callee *ssa.Function, args []*Value, bindings []*Value, retT types.Type, site ssa.Instruction) *Value {
	nf := &Frame{fn: callee, regs: map[ssa.Value]*Value{}, params: args, freeVars: bindings, inline: true}
	ex.stack = append(ex.stack, callee)
	what := funcShortName(callee)
	if site != nil {
		what += "[" + ex.siteWhat(site) + "]"
	}
	ex.inlinePath = append(ex.inlinePath, what)
	entry := st.clone()
	ex.execBody(nf, entry)
	ex.inlinePath = ex.inlinePath[:len(ex.inlinePath)-1]
	ex.stack = ex.stack[:len(ex.stack)-1]
	if len(nf.rets) == 0 {
		// callee never returns normally on any path
		st.pc = ex.tb.False
		if retT == nil {
			return nil
		}
		return ex.zero(retT)
	}
	var states []*State
	for _, r := range nf.rets {
		states = append(states, r.st)
	}
	merged := ex.merge(states)
	*st = *merged.clone()
	if retT == nil {
		return nil
	}
	var cur *Value
	for i := len(nf.rets) - 1; i >= 0; i-- {
		r := nf.rets[i]
		var v *Value
		if len(r.results) == 1 {
			v = r.results[0]
		} else {
			v = ex.mkTuple(retT, r.results...)
		}
		if cur == nil {
			cur = v
		} else {
			cur = ex.iteValueT(r.st.pc, v, cur)
		}
	}
	return cur
}

// iteValueT merges values that may be tuples carrying element side info.
func (ex *Exec) iteValueT(c *Term, a, b *Value) *Value {
	if a.F != nil && a.F.Builtin == "$tuple" && b.F != nil && b.F.Builtin == "$tuple" {
		var elems []*Value
		for i := range a.F.Bindings {
			elems = append(elems, ex.iteValue(c, a.F.Bindings[i], b.F.Bindings[i]))
		}
		return ex.mkTuple(a.T, elems...)
	}
	return ex.iteValue(c, a, b)
}

// unknownCall: nothing is known about the callee: results unconstrained, all
// heap state and every address-exposed local forgotten.
func (ex *Exec) unknownCall(st *State, name string, args []*Value, retT types.Type, site ssa.Instruction) *Value {
	ex.note("unknown callee (havoc): " + name)
	ex.abstracted++
	if ex.discover != nil {
		ex.discover.all = true
		if os.Getenv("GOVC_DEBUG_FRAMES") != "" {
			fmt.Fprintf(os.Stderr, "FRAME-ALL unknown callee %s\n", name)
		}
	}
	ex.havocAllHeap(st)
	ex.havocExposedLocals(st, args)
	if retT == nil {
		return nil
	}
	hv, facts := ex.havoc(retT, "ret."+name)
	ex.assume(st, facts)
	if ex.discover == nil {
		ex.bumpFrontier(hv)
	}
	return hv
}

// havocExposedLocals forgets local cells whose address was handed to the callee
// (directly) or that are captured by closures.
func (ex *Exec) havocExposedLocals(st *State, args []*Value) {
	for _, a := range args {
		if a.P != nil && a.P.Local != nil {
			ex.havocLocal(st, a.P.Local)
		}
		if a.F != nil {
			for _, b := range a.F.Bindings {
				if b != nil && b.P != nil && b.P.Local != nil {
					ex.havocLocal(st, b.P.Local)
				}
			}
		}
	}
}

func (ex *Exec) havocLocal(st *State, a *ssa.Alloc) {
	cur, ok := st.locals[a]
	if !ok {
		return
	}
	hv, facts := ex.havoc(cur.T, "exposed."+a.Comment)
	st.locals[a] = hv
	ex.assume(st, facts)
	if ex.discover != nil {
		ex.discover.locals[a] = true
	}
}

// ---- contract-based call ----

func (ex *Exec) callSpec(fr *Frame, st *State, c *FuncContract, args []*Value, retT types.Type, site ssa.Instruction) *Value {
	tb := ex.tb
	if c.Extern || c.Trusted {
		ex.usedExterns[c.Name] = true
	}
	env := &Env{ex: ex, st: st, vars: map[string]*Value{}, pkg: c.Pkg, contract: c}
	names := c.ParamNames
	if len(names) != len(args) {
		// variadic or mismatch: bind what we can
		ex.note(fmt.Sprintf("contract %s: %d params vs %d args", c.Name, len(names), len(args)))
	}
	for i, n := range names {
		if i < len(args) && n != "_" && n != "" {
			env.vars[n] = args[i]
		}
	}
	what := c.Name
	if site != nil {
		what = ex.siteWhat(site)
	}
	if c.Fn != nil && c.Fn.Signature.Recv() != nil && len(args) > 0 && !c.Extern {
		if _, ok := c.Fn.Signature.Recv().Type().Underlying().(*types.Pointer); ok && (args[0].P == nil || (args[0].P.Local == nil && len(args[0].P.Path) == 0)) {
			ex.oblige(st, "nil", what+":receiver", tb.Ne(args[0].C[0], ex.refLit(0)), site, "method call on nil receiver")
		}
	}
	if c.Extern && strings.Contains(c.Name, ".(*") && len(args) > 0 && site != nil {
		// a standard-library method with a pointer receiver, called on a pointer of ours: the
		// library dereferences it (log.(*Logger).Printf, bufio.(*Reader).ReadByte, ...)
		if _, isPtr := args[0].T.Underlying().(*types.Pointer); isPtr && (args[0].P == nil || (args[0].P.Local == nil && len(args[0].P.Path) == 0)) {
			if _, isCall := site.(ssa.CallInstruction); isCall {
				ex.oblige(st, "nil", what+":receiver", tb.Ne(args[0].C[0], ex.refLit(0)), site, "library method called on a nil pointer receiver")
			}
		}
	}
	for _, r := range c.Requires {
		cond := ex.evalSpecBool(env, r.Expr)
		ex.obligeSpec(st, "pre", what+":"+r.Label, cond, r, site)
	}
	pre := st.clone()
	// frame
	switch {
	case c.Pure:
	case c.Modifies != nil:
		for _, m := range c.Modifies {
			ex.applyModifies(env, st, m)
		}
	case c.Fn != nil && len(c.Fn.Blocks) > 0:
		ws := ex.frameOf(c.Fn)
		ex.havocCalleeWrites(st, ws, args, c.Fn)
	default:
		if ex.discover != nil {
			ex.discover.all = true
			if os.Getenv("GOVC_DEBUG_FRAMES") != "" {
				fmt.Fprintf(os.Stderr, "FRAME-ALL contract without frame: %s\n", c.Name)
			}
		}
		ex.havocAllHeap(st)
		ex.havocExposedLocals(st, args)
	}
	// results
	var res *Value
	if retT != nil {
		var facts *Term
		if c.Functional {
			res = ex.functionalResult(c, args, retT)
			facts = ex.typeFacts(res)
		} else {
			res, facts = ex.havoc(retT, "r."+c.Name)

		}
		ex.assume(st, facts)
		if tt, ok := retT.(*types.Tuple); ok {
			lo := 0
			var elems []*Value
			for i := 0; i < tt.Len(); i++ {
				n := len(ex.L.Of(tt.At(i).Type()).Comps)
				ev := &Value{T: tt.At(i).Type(), C: res.C[lo : lo+n : lo+n]}
				elems = append(elems, ev)
				if i < len(c.ResultNames) && c.ResultNames[i] != "" {
					env.vars[c.ResultNames[i]] = ev
				}
				lo += n
			}
			if c.ForeignFuncs {
				for _, ev := range elems {
					if _, isFn := ev.T.Underlying().(*types.Signature); isFn {
						ev.F = &FuncInfo{Builtin: "$foreignfunc"}
					}
				}
			}
			res = ex.mkTuple(retT, elems...)
		} else if len(c.ResultNames) > 0 && c.ResultNames[0] != "" {
			env.vars[c.ResultNames[0]] = res
		}
	}
	if !c.Functional && ex.discover == nil {
		ex.bumpFrontier(res)
	}
	if c.FreshResult && res != nil {
		if pt, ok := res.T.Underlying().(*types.Pointer); ok && heapClass(typeKey(pt.Elem())+"|0") == clsForeign {
			ex.ownedForeign[res.C[0].id] = &ownedObj{ref: res.C[0], t: pt.Elem()}
		}
	}
	env.st = st
	env.old = pre
	internal := map[string]bool{}
	for _, cc := range c.Calls {
		for _, g := range cc.Sets {
			internal[g.Name] = true
		}
	}
	for _, e := range c.Ensures {
		if exprMentions(e.Expr, internal) {
			// speaks about ghost state private to the callee's own execution
			continue
		}
		var cond *Term
		if (c.Mode == "bv") != ex.L.bv {
			// the callee was verified in the other integer mode: a postcondition that does not
			// evaluate in this one (bit-vector spec functions) is not assumed (assuming less is sound)
			func() {
				defer func() {
					if r := recover(); r != nil {
						if _, ok := r.(specError); !ok {
							panic(r)
						}
						cond = nil
					}
				}()
				cond = ex.evalSpecBool(env, e.Expr)
			}()
			if cond == nil {
				continue
			}
		} else {
			cond = ex.evalSpecBool(env, e.Expr)
		}
		ex.assume(st, cond)
		if e.Trusted {
			ex.usedExterns[c.Name+" [trusted postcondition "+e.Label+"]"] = true
		}
	}
	for _, g := range c.Sets {
		v := ex.evalSpec(env, g.Expr)
		ex.setGhost(st, g.Name, v)
	}
	_ = tb
	return res
}

func (ex *Exec) obligeSpec(st *State, kind, what string, cond *Term, cl *Clause, site ssa.Instruction) {
	n := len(ex.obls)
	ex.oblige(st, kind, what, cond, site, "")
	if len(ex.obls) > n && cl != nil {
		ex.obls[n].Props = cl.Props
		if !ex.obls[n].Pos.IsValid() {
			ex.obls[n].Detail = cl.Src
		}
	}
}

// frameOf computes (once) what a function with a body may write.
func (ex *Exec) frameOf(fn *ssa.Function) *writeSet {
	if ws, ok := ex.frames[fn]; ok {
		return ws
	}
	ws := newWriteSet()
	ex.frames[fn] = &writeSet{all: true, heap: map[string]heapKeyInfo{}, locals: map[*ssa.Alloc]bool{}} // recursion guard
	if ex.onStack(fn) || len(ex.stack) > 40 {
		ws.all = true
		return ws
	}
	// the inlining budget counts from here: a frame is computed once per function, so
	// nesting depth does not multiply work
	savedBase := ex.stackBase
	ex.stackBase = len(ex.stack)
	defer func() { ex.stackBase = savedBase }()
	saved := ex.discover
	savedPath := ex.inlinePath
	if saved == nil {
		ex.discoverFresh = map[int]bool{}
	}
	ex.discover = ws
	st := ex.newState()
	ex.havocAllHeap(st)
	var params []*Value
	for _, p := range fn.Params {
		hv, facts := ex.havoc(p.Type(), "fp."+p.Name())
		ex.assume(st, facts)
		params = append(params, hv)
	}
	var fvs []*Value
	for _, p := range fn.FreeVars {
		hv, facts := ex.havoc(p.Type(), "fv."+p.Name())
		ex.assume(st, facts)
		fvs = append(fvs, hv)
	}
	nf := &Frame{fn: fn, regs: map[ssa.Value]*Value{}, params: params, freeVars: fvs, inline: true}
	ex.stack = append(ex.stack, fn)
	ex.execBody(nf, st)
	ex.stack = ex.stack[:len(ex.stack)-1]
	ex.discover = saved
	ex.inlinePath = savedPath
	// the callee's own locals are irrelevant to callers
	ws.locals = map[*ssa.Alloc]bool{}
	ex.frames[fn] = ws
	ex.frameParams[fn] = params
	if os.Getenv("GOVC_DEBUG_FRAMES") != "" {
		var ks []string
		for k, info := range ws.heap {
			w := "precise"
			if info.wide || len(info.refs) == 0 {
				w = "wide"
			}
			ks = append(ks, k+":"+w)
		}
		sort.Strings(ks)
		fmt.Fprintf(os.Stderr, "FRAME %s all=%v classes=%v %s\n", fn.String(), ws.all, ws.classes, strings.Join(ks, " "))
	}
	return ws
}

// translateFrame rewrites the objects a callee frame names (its parameters' own
// references) into the caller's argument terms; anything else becomes "some object".
func (ex *Exec) translateFrame(ws *writeSet, callee *ssa.Function, args []*Value) *writeSet {
	out := &writeSet{mark: int(^uint(0) >> 1), all: ws.all, classes: ws.classes, heap: map[string]heapKeyInfo{}, locals: map[*ssa.Alloc]bool{}, ghosts: map[string]bool{}}
	params := ex.frameParams[callee]
	tr := map[*Term]*Term{}
	if len(params) == len(args) {
		for i, p := range params {
			if len(p.C) != len(args[i].C) {
				continue
			}
			for j := range p.C {
				if _, dup := tr[p.C[j]]; !dup {
					tr[p.C[j]] = args[i].C[j]
				}
			}
		}
	}
	for k, info := range ws.heap {
		ni := heapKeyInfo{rootKey: info.rootKey, root: info.root, comp: info.comp, sort: info.sort}
		if info.wide || len(info.refs) == 0 {
			out.noteWrite(k, ni, nil)
			continue
		}
		for _, r := range info.refs {
			if a, ok := tr[r]; ok && a.Sort == r.Sort {
				out.noteWrite(k, ni, a)
			} else {
				out.noteWrite(k, ni, nil)
			}
		}
	}
	return out
}

// havocCalleeWrites applies a callee frame at a call site, translating writes
// through pointer parameters that point into the interior of caller objects or
// at caller locals.
func (ex *Exec) havocCalleeWrites(st *State, ws *writeSet, args []*Value, callee *ssa.Function) {
	tws := ex.translateFrame(ws, callee, args)
	if ex.discover != nil {
		ex.discover.addAll(tws)
	}
	if ws.all {
		ex.havocAllHeap(st)
		ex.havocExposedLocals(st, args)
		return
	}
	ex.havocWrites(st, tws)
	for _, a := range args {
		ex.havocThroughArg(st, a, ws)
	}
}

func (ex *Exec) havocThroughArg(st *State, a *Value, ws *writeSet) {
	if a.F != nil && a.F.Builtin != "$tuple" {
		for _, b := range a.F.Bindings {
			if b != nil {
				ex.havocThroughArg(st, b, ws)
			}
		}
	}
	if a.P == nil {
		return
	}
	var pointee types.Type
	switch u := a.T.Underlying().(type) {
	case *types.Pointer:
		pointee = u.Elem()
	case *types.Slice:
		pointee = sliceRootType(a.T)
	default:
		return
	}
	key := typeKey(pointee)
	touched := false
	for k := range ws.heap {
		if strings.HasPrefix(k, key+"|") {
			touched = true
		}
	}
	if !touched {
		return
	}
	// forget the pointee (coarsely: the whole sub-object)
	l := loc{local: a.P.Local, root: a.P.Root, ref: a.C[0], path: a.P.Path}
	if _, isSlice := a.T.Underlying().(*types.Slice); isSlice {
		// slice over an embedded array / local array: forget the whole array
		if len(l.path) > 0 && l.path[len(l.path)-1].IsIndex {
			l.path = l.path[:len(l.path)-1]
		}
	}
	_, _, _, t := ex.walk(l.root, l.path)
	hv, _ := ex.havoc(t, "thru")
	if len(l.path) == 0 && l.local != nil {
		old := st.locals[l.local]
		if old != nil {
			hv.P, hv.F = old.P, old.F
		}
		st.locals[l.local] = hv
		if ex.discover != nil {
			ex.discover.locals[l.local] = true
		}
		return
	}
	ex.store(st, l, hv)
}

func (ex *Exec) applyModifies(env *Env, st *State, m ModTarget) {
	switch m.Kind {
	case "all":
		if ex.discover != nil {
			ex.discover.all = true
			if os.Getenv("GOVC_DEBUG_FRAMES") != "" {
				fmt.Fprintf(os.Stderr, "FRAME-ALL modifies all\n")
			}
		}
		ex.havocAllHeap(st)
	case "foreign", "data", "maps":
		classes := []int{clsForeign}
		switch m.Kind {
		case "data":
			classes = []int{clsData, clsMap}
		case "maps":
			classes = []int{clsMap}
		}
		for _, cls := range classes {
			if ex.discover != nil {
				ex.discover.classes[cls] = true
			}
			ex.havocClass(st, cls)
		}
	case "type":
		t := ex.prog.lookupType(m.Name, env.pkg)
		if t == nil {
			// the package declaring the type is not loaded for this run
			return
		}
		comps := ex.L.rootComps(t)
		for i, c := range comps {
			if m.Field != "" && c.Path != m.Field && !strings.HasPrefix(c.Path, m.Field+".") && !strings.HasPrefix(c.Path, m.Field+"[]") {
				continue
			}
			if ex.discover != nil {
				ex.discover.noteWrite(fmt.Sprintf("%s|%d", typeKey(t), i), heapKeyInfo{rootKey: typeKey(t), root: t, comp: i, sort: c.Sort}, nil)
			}
			ex.havocHeapKey(st, typeKey(t), i, c.Sort)
		}
	case "expr":
		// *p or p[..]: forget the object an argument designates
		target := m.Expr
		if u, ok := target.(*EUnary); ok && u.Op == "*" {
			target = u.X
		}
		v := ex.evalSpec(env, target)
		if _, isIface := v.T.Underlying().(*types.Interface); isIface {
			if v.I == nil {
				// unknown dynamic value: cannot tell what it designates
				if ex.discover != nil {
					ex.discover.all = true
					if os.Getenv("GOVC_DEBUG_FRAMES") != "" {
						fmt.Fprintf(os.Stderr, "FRAME-ALL modifies through unknown interface value: %s\n", fmt.Sprintf("%#v", m.Expr))
					}
				}
				ex.havocAllHeap(st)
				return
			}
			v = v.I
		}
		switch u := v.T.Underlying().(type) {
		case *types.Pointer:
			l := ex.resolve(v)
			_, _, _, t := ex.walk(l.root, l.path)
			hv, facts := ex.havoc(t, "mod")
			if len(l.path) == 0 && l.local != nil {
				st.locals[l.local] = hv
				if ex.discover != nil {
					ex.discover.locals[l.local] = true
				}
			} else {
				ex.store(st, l, hv)
			}
			ex.assume(st, facts)
		case *types.Slice:
			ex.havocSliceContents(st, v, u)
		case *types.Map:
			// forget the entries of this one map
			key, mt := ex.mapRootKey(v)
			n := len(ex.L.Of(mt.Elem()).Comps) + 1
			for i := 0; i < n; i++ {
				var cs Sort = SBool
				if i > 0 {
					cs = ex.L.Of(mt.Elem()).Comps[i-1].Sort
				}
				hs := ArrOf(cs)
				h := ex.heapMap(st, key, i, hs)
				if ex.discover != nil {
					ex.discover.noteWrite(fmt.Sprintf("%s|%d", key, i), heapKeyInfo{rootKey: key, comp: i, sort: hs}, v.C[0])
				}
				ex.setHeapMap(st, key, i, ex.tb.Store(h, v.C[0], ex.tb.Fresh("modmap", hs)))
			}
		default:
			panic("modifies: unsupported target " + v.T.String())
		}
	}
}

func (ex *Exec) havocSliceContents(st *State, v *Value, u *types.Slice) {
	if v.P != nil {
		l := loc{local: v.P.Local, root: v.P.Root, ref: v.C[0], path: v.P.Path}
		_, _, _, t := ex.walk(l.root, l.path)
		hv, _ := ex.havoc(t, "modarr")
		if len(l.path) == 0 && l.local != nil {
			st.locals[l.local] = hv
			if ex.discover != nil {
				ex.discover.locals[l.local] = true
			}
		} else {
			ex.store(st, l, hv)
		}
		return
	}
	key := typeKey(sliceRootType(v.T))
	for i, c := range ex.L.Backing(u.Elem()) {
		h := ex.heapMap(st, key, i, c.Sort)
		if ex.discover != nil {
			ex.discover.noteWrite(fmt.Sprintf("%s|%d", key, i), heapKeyInfo{rootKey: key, root: sliceRootType(v.T), comp: i, sort: c.Sort}, v.C[0])
		}
		ex.setHeapMap(st, key, i, ex.tb.Store(h, v.C[0], ex.tb.Fresh("modbk", c.Sort)))
	}
}

// ---- defers / go / select ----

func (ex *Exec) runDefers(fr *Frame, st *State, in *ssa.RunDefers) {
	// collect defers of this function in reverse program order
	var ds []*ssa.Defer
	for _, b := range fr.fn.Blocks {
		for _, i := range b.Instrs {
			if d, ok := i.(*ssa.Defer); ok {
				ds = append(ds, d)
			}
		}
	}
	for i := len(ds) - 1; i >= 0; i-- {
		d := ds[i]
		armed, ok := st.armed[d]
		if !ok || armed.IsFalse() {
			continue
		}
		args := st.dargs[d]
		run := st.clone()
		ex.assume(run, armed)
		skip := st.clone()
		ex.assume(skip, ex.tb.Not(armed))
		ex.execDeferred(fr, run, d, args)
		var m *State
		if skip.pc.IsFalse() || armed.IsTrue() {
			m = run
		} else {
			m = ex.merge([]*State{run, skip})
		}
		*st = *m.clone()
		delete(st.armed, d)
	}
}

func (ex *Exec) execDeferred(fr *Frame, st *State, d *ssa.Defer, args []*Value) {
	c0 := d.Common()
	argVals := args
	if !c0.IsInvoke() {
		argVals = args[1:]
	}
	ex.withCallClauses(fr, st, callName(c0), d, argVals, func() *Value {
		ex.execDeferredInner(fr, st, d, args)
		return nil
	})
}

func (ex *Exec) execDeferredInner(fr *Frame, st *State, d *ssa.Defer, args []*Value) {
	c := d.Common()
	sig := c.Signature()
	var retT types.Type
	switch sig.Results().Len() {
	case 0:
	case 1:
		retT = sig.Results().At(0).Type()
	default:
		retT = sig.Results()
	}
	if b, ok := c.Value.(*ssa.Builtin); ok {
		ex.builtin(fr, st, b.Name(), args[1:], retT, d)
		return
	}
	if c.IsInvoke() {
		recv := args[0]
		if recv.I != nil {
			if m := ex.prog.lookupMethod(recv.I.T, c.Method); m != nil {
				ex.callFunction(fr, st, m, append([]*Value{recv.I}, args[1:]...), nil, retT, d)
				return
			}
		}
		name := ifaceMethodName(c.Value.Type(), c.Method)
		if spec := ex.prog.externFor(name); spec != nil {
			ex.callSpec(fr, st, spec, args, retT, d)
			return
		}
		if spec := ex.prog.externFor("*." + c.Method.Name()); spec != nil {
			ex.callSpec(fr, st, spec, args, retT, d)
			return
		}
		ex.unknownCall(st, name, args, retT, d)
		return
	}
	fv := args[0]
	if callee := c.StaticCallee(); callee != nil {
		var bindings []*Value
		if fv.F != nil {
			bindings = fv.F.Bindings
		}
		ex.callFunction(fr, st, callee, args[1:], bindings, retT, d)
		return
	}
	if fv.F != nil && fv.F.Fn != nil {
		ex.callFunction(fr, st, fv.F.Fn, args[1:], fv.F.Bindings, retT, d)
		return
	}
	if fv.F != nil && fv.F.Builtin == "$foreignfunc" {
		ex.havocClass(st, clsForeign)
		if ex.discover != nil {
			ex.discover.classes[clsForeign] = true
		}
		return
	}
	ex.unknownCall(st, "deferred funcvalue", args, retT, d)
}

// execGo: the spawned body is not part of the sequential VC.  Cells it may
// write become volatile for the parent from here on.
func (ex *Exec) execGo(fr *Frame, st *State, in *ssa.Go) {
	// at go[#k] requires ...: $callee is the name of the function started
	ex.atObligations(fr, st, "go", in, map[string]*Value{"$callee": ex.constToValue(constant.MakeString(callName(in.Common())), types.Typ[types.String])})
	ex.raceObligations(fr, st, in)
	c := in.Common()
	var fn *ssa.Function
	var bindings []ssa.Value
	if mc, ok := c.Value.(*ssa.MakeClosure); ok {
		fn = mc.Fn.(*ssa.Function)
		bindings = mc.Bindings
	} else if f := c.StaticCallee(); f != nil {
		fn = f
	}
	if fn == nil {
		ex.note("go of dynamic function value")
		return
	}
	for i, fv := range fn.FreeVars {
		if i >= len(bindings) {
			break
		}
		a := rootAlloc(bindings[i])
		if a == nil {
			continue
		}
		if writesFreeVar(fn, fv) {
			st.volat[a] = true
		}
	}
	// fork rule: the child's precondition (over its captured variables, which carry the
	// names of the parent's variables) is established by the parent at the spawn; it stays
	// true because the race-free obligations forbid the parent to write them afterwards.
	if ct := ex.prog.contractFor(fn); ct != nil && ex.discover == nil {
		for _, r := range ct.Requires {
			env := ex.specEnv(fr, st, in.Pos())
			cond := ex.evalSpecBool(env, r.Expr)
			ex.obligeSpec(st, "spawn-requires", ex.siteWhat(in)+":"+r.Label, cond, r, in)
		}
	}
	ex.note("go statement: child body checked separately (footprint rule), not interleaved")
}

func writesFreeVar(fn *ssa.Function, fv *ssa.FreeVar) bool {
	for _, b := range fn.Blocks {
		for _, in := range b.Instrs {
			if s, ok := in.(*ssa.Store); ok {
				v := s.Addr
				for {
					if v == ssa.Value(fv) {
						return true
					}
					switch x := v.(type) {
					case *ssa.FieldAddr:
						v = x.X
						continue
					case *ssa.IndexAddr:
						v = x.X
						continue
					}
					break
				}
			}
		}
	}
	for _, anon := range fn.AnonFuncs {
		_ = anon
	}
	return false
}

func (ex *Exec) execSelect(fr *Frame, st *State, in *ssa.Select) *Value {
	tb := ex.tb
	tt := in.Type().(*types.Tuple)
	n := len(in.States)
	idx := tb.Fresh("selidx", SInt)
	lo := int64(0)
	if !in.Blocking {
		lo = -1
	}
	ex.assume(st, tb.And(tb.Le(tb.Int(lo), idx), tb.Lt(idx, tb.Int(int64(n)))))
	// at select[#k] requires / set: clauses attached to reaching this select statement;
	// $chosen is the index of the case that will be taken (-1: default), $cK / $sK the channel
	// and (for send cases) the value of case K
	selVars := map[string]*Value{"$chosen": ex.intV(idx, types.Typ[types.Int])}
	for k, s := range in.States {
		selVars[fmt.Sprintf("$c%d", k)] = ex.eval(fr, st, s.Chan)
		if s.Send != nil {
			selVars[fmt.Sprintf("$s%d", k)] = ex.eval(fr, st, s.Send)
		}
	}
	ex.atObligations(fr, st, "select", in, selVars)
	elems := []*Value{ex.intV(idx, types.Typ[types.Int]), ex.boolV(tb.Fresh("selok", SBool))}
	for i := 2; i < tt.Len(); i++ {
		hv, facts := ex.havoc(tt.At(i).Type(), "selrecv")
		ex.assume(st, facts)
		elems = append(elems, hv)
	}
	for _, s := range in.States {
		ex.eval(fr, st, s.Chan)
		if s.Send != nil {
			ex.eval(fr, st, s.Send)
		}
	}
	return ex.mkTuple(in.Type(), elems...)
}

// ---- globals ----

func (ex *Exec) globalPtr(g *ssa.Global) *Value {
	k := "G$" + g.Pkg.Pkg.Name() + "." + g.Name()
	if v, ok := ex.globals[k]; ok {
		return v
	}
	id := int64(-(len(ex.globals) + 1)) // negative refs: disjoint from allocations and nil
	v := &Value{T: g.Type(), C: []*Term{ex.refLit(id)}}
	ex.globals[k] = v
	return v
}

// loadGlobal gives precise values for immutable table / sentinel globals.
func (ex *Exec) loadGlobal(st *State, g *ssa.Global) *Value {
	t := deref(g.Type())
	// error sentinels and other interface-typed globals: fixed identity
	if _, ok := t.Underlying().(*types.Interface); ok && !ex.prog.globalAssigned(g) {
		k := "GV$" + g.Pkg.Pkg.Name() + "." + g.Name()
		if v, ok := ex.globals[k]; ok {
			return v
		}
		id := ex.typeID("sentinel:" + k)
		v := &Value{T: t, C: []*Term{ex.tb.Int(int64(500000 + id)), ex.refLit(int64(500000 + id))}}
		ex.globals[k] = v
		return v
	}
	if v := ex.prog.constGlobal(ex, g); v != nil {
		if arr, ok := ex.constSliceArr["CG$"+g.String()]; ok {
			// immutable table behind a slice: its backing contents are known
			rt := sliceRootType(v.T)
			c := ex.L.Backing(backingElem(rt))[0]
			ex.assume(st, ex.tb.Eq(ex.tb.Select(ex.heapMap(st, typeKey(rt), 0, c.Sort), v.C[0]), arr))
		}
		return v
	}
	return nil
}

// ---- builtins ----

func (ex *Exec) builtin(fr *Frame, st *State, name string, args []*Value, retT types.Type, site ssa.Instruction) *Value {
	tb := ex.tb
	switch name {
	case "len":
		x := args[0]
		switch u := x.T.Underlying().(type) {
		case *types.Basic:
			return ex.intV(x.C[2], types.Typ[types.Int])
		case *types.Slice:
			return ex.intV(x.C[2], types.Typ[types.Int])
		case *types.Array:
			return ex.intV(ex.idxLit(u.Len()), types.Typ[types.Int])
		case *types.Pointer:
			return ex.intV(ex.idxLit(u.Elem().Underlying().(*types.Array).Len()), types.Typ[types.Int])
		case *types.Map:
			return ex.intV(ex.mapLen(st, x), types.Typ[types.Int])
		case *types.Chan:
			hv, f := ex.havoc(types.Typ[types.Int], "chanlen")
			ex.assume(st, tb.And(f, ex.geZero(hv.C[0])))
			return hv
		}
	case "cap":
		x := args[0]
		switch u := x.T.Underlying().(type) {
		case *types.Slice:
			return ex.intV(x.C[3], types.Typ[types.Int])
		case *types.Array:
			return ex.intV(ex.idxLit(u.Len()), types.Typ[types.Int])
		case *types.Chan:
			hv, f := ex.havoc(types.Typ[types.Int], "chancap")
			ex.assume(st, tb.And(f, ex.geZero(hv.C[0])))
			return hv
		}
	case "append":
		ex.atObligations(fr, st, "append", site, map[string]*Value{"$0": args[0], "$1": args[1]})
		return ex.builtinAppend(st, args[0], args[1], retT, site)
	case "copy":
		ex.atObligations(fr, st, "copy", site, map[string]*Value{"$0": args[0], "$1": args[1]})
		return ex.builtinCopy(st, args[0], args[1], site)
	case "delete":
		ex.atObligations(fr, st, "delete", site, map[string]*Value{"$0": args[0], "$1": args[1]})
		ex.mapAccessObligations(fr, st, site)
		ex.mapDelete(st, args[0], args[1])
		return nil
	case "close":
		ex.atObligations(fr, st, "close", site, map[string]*Value{"$0": args[0]})
		return nil
	case "panic":
		ex.oblige(st, "panic", ex.siteWhat(site), tb.False, site, "explicit panic")
		return nil
	case "recover":
		return ex.zero(retT)
	case "print", "println":
		return nil
	case "min", "max":
		cur := args[0]
		for _, a := range args[1:] {
			var c *Term
			if name == "min" {
				c = ex.lt(a.C[0], cur.C[0])
			} else {
				c = ex.lt(cur.C[0], a.C[0])
			}
			cur = ex.iteValue(c, a, cur)
		}
		return cur
	case "clear":
		ex.note("clear abstracted")
		ex.havocAllHeap(st)
		return nil
	case "ssa:wrapnilchk":
		return args[0]
	case "ssa:deferstack":
		return ex.zero(retT)
	}
	ex.note("builtin " + name + " abstracted")
	if retT == nil {
		return nil
	}
	hv, f := ex.havoc(retT, "builtin."+name)
	ex.assume(st, f)
	return hv
}

// ---- slices ----

func (ex *Exec) sliceElemPtr(s *Value, idx *Term, pt types.Type) *Value {
	abs := ex.add(s.C[1], idx)
	if s.P != nil {
		np := &PtrInfo{Local: s.P.Local, Root: s.P.Root, Path: append(append([]PathElem(nil), s.P.Path...), PathElem{IsIndex: true, Index: abs})}
		return &Value{T: pt, C: []*Term{s.C[0]}, P: np}
	}
	np := &PtrInfo{Root: sliceRootType(s.T), Path: []PathElem{{IsIndex: true, Index: abs}}}
	return &Value{T: pt, C: []*Term{s.C[0]}, P: np}
}

// sliceRootType normalises named slice types to their underlying slice type so
// that all []T share one backing heap.
func sliceRootType(t types.Type) types.Type {
	// the backing store of every []E is an (unbounded) array object: [-1]E
	return types.NewArray(t.Underlying().(*types.Slice).Elem(), -1)
}

func backingElem(root types.Type) types.Type { return root.(*types.Array).Elem() }

func isBackingRoot(root types.Type) bool {
	a, ok := root.(*types.Array)
	return ok && a.Len() < 0
}

func (ex *Exec) sliceElem(st *State, s *Value, idx *Term) *Value {
	et := s.T.Underlying().(*types.Slice).Elem()
	p := ex.sliceElemPtr(s, idx, types.NewPointer(et))
	return ex.load(st, ex.resolve(p))
}

func (ex *Exec) makeSlice(st *State, t types.Type, ln, cp *Term) *Value {
	ref := ex.newRef(st)
	st2 := sliceRootType(t)
	key := typeKey(st2)
	for i, c := range ex.L.Backing(backingElem(st2)) {
		h := ex.heapMap(st, key, i, c.Sort)
		ex.setHeapMap(st, key, i, ex.tb.Store(h, ref, ex.zeroOfSort(c.Sort)))
		if ex.discover != nil {
			// fresh object: not a write visible to callers
		}
	}
	return &Value{T: t, C: []*Term{ref, ex.idxLit(0), ln, cp}}
}

// allocBound records an obligation-free note; allocation-size obligations are
// attached by contracts (alloc clauses) where a property needs them.
func (ex *Exec) allocBound(st *State, n *Term, site ssa.Instruction) {}

// allocObligation: in functions that handle remote-controlled data (contracts
// tagged with a property listed in allocProps) every make() must be bounded by
// the contract's allocbound expression (default: a small constant), so that a
// remote-declared number cannot drive an allocation.
var allocProps = []string{"C03"}

func (ex *Exec) allocObligation(fr *Frame, st *State, cp *Term, in ssa.Instruction) {
	c := fr.contract
	if c == nil {
		c = ex.prog.contractFor(fr.fn)
	}
	root := ex.rootContract
	tagged := false
	for _, p := range allocProps {
		if root != nil && hasProp(root.Props, p) {
			tagged = true
		}
	}
	// a contract that states an allocation bound asks for the obligation under its own properties
	explicit := c != nil && c.AllocBound != nil
	if !(tagged || explicit) || cp.ival != nil && cp.ival.IsInt64() && cp.ival.Int64() <= 65536 {
		return
	}
	var bound *Term = ex.idxLit(4096)
	if c != nil && c.AllocBound != nil {
		env := ex.specEnv(fr, st, in.Pos())
		bound = ex.evalSpec(env, c.AllocBound).C[0]
	}
	n := len(ex.obls)
	ex.oblige(st, "alloc", ex.siteWhat(in), ex.le(cp, bound), in, "allocation size not bounded by received data")
	if len(ex.obls) > n && tagged {
		ex.obls[n].Props = allocProps
	}
}

func (ex *Exec) execSlice(fr *Frame, st *State, in *ssa.Slice) *Value {
	tb := ex.tb
	x := ex.eval(fr, st, in.X)
	var lo, hi, max *Term
	if in.Low != nil {
		lo = ex.toIndex(ex.eval(fr, st, in.Low))
	} else {
		lo = ex.idxLit(0)
	}
	if in.High != nil {
		hi = ex.toIndex(ex.eval(fr, st, in.High))
	}
	if in.Max != nil {
		max = ex.toIndex(ex.eval(fr, st, in.Max))
	}
	what := ex.siteWhat(in)
	switch u := x.T.Underlying().(type) {
	case *types.Basic: // string
		arr, off, ln := ex.strParts(x)
		if hi == nil {
			hi = ln
		}
		ex.oblige(st, "slice", what, tb.And(ex.geZero(lo), ex.le(lo, hi), ex.le(hi, ln)), in, "slice bounds out of range")
		r := ex.mkString(arr, ex.add(off, lo), ex.sub(hi, lo))
		r.T = in.Type()
		return r
	case *types.Slice:
		if hi == nil {
			hi = x.C[2]
		}
		capT := x.C[3]
		bound := capT
		if max != nil {
			ex.oblige(st, "slice", what+":max", tb.And(ex.le(hi, max), ex.le(max, capT)), in, "slice bounds out of range")
			bound = max
		}
		ex.oblige(st, "slice", what, tb.And(ex.geZero(lo), ex.le(lo, hi), ex.le(hi, bound)), in, "slice bounds out of range")
		return &Value{T: in.Type(), C: []*Term{x.C[0], ex.add(x.C[1], lo), ex.sub(hi, lo), ex.sub(bound, lo)}, P: x.P}
	case *types.Pointer: // *array
		at := u.Elem().Underlying().(*types.Array)
		n := ex.idxLit(at.Len())
		if hi == nil {
			hi = n
		}
		bound := n
		if max != nil {
			ex.oblige(st, "slice", what+":max", tb.And(ex.le(hi, max), ex.le(max, n)), in, "slice bounds out of range")
			bound = max
		}
		ex.nilCheck(st, x, in, "slice")
		ex.oblige(st, "slice", what, tb.And(ex.geZero(lo), ex.le(lo, hi), ex.le(hi, bound)), in, "slice bounds out of range")
		l := ex.resolve(x)
		p := &PtrInfo{Local: l.local, Root: l.root, Path: l.path}
		ref := x.C[0]
		if l.local != nil {
			ref = ex.refLit(-1000000 - int64(ex.typeID("localarr:"+fmt.Sprint(l.local.Pos())+l.local.Name()))) // non-nil marker
		}
		return &Value{T: in.Type(), C: []*Term{ref, lo, ex.sub(hi, lo), ex.sub(bound, lo)}, P: p}
	}
	panic("Slice on " + x.T.String())
}

// backingArray returns the SMT array holding component comp of the slice's
// backing store (for single-component element types comp is 0).
func (ex *Exec) backingArray(st *State, s *Value, comp int) *Term {
	if s.P != nil {
		l := loc{local: s.P.Local, root: s.P.Root, ref: s.C[0], path: s.P.Path}
		v := ex.load(st, l)
		return v.C[comp]
	}
	rt := sliceRootType(s.T)
	c := ex.L.Backing(backingElem(rt))[comp]
	return ex.tb.Select(ex.heapMap(st, typeKey(rt), comp, c.Sort), s.C[0])
}

func (ex *Exec) setBackingArray(st *State, s *Value, comp int, arr *Term) {
	if s.P != nil {
		l := loc{local: s.P.Local, root: s.P.Root, ref: s.C[0], path: s.P.Path}
		cur := ex.load(st, l)
		nv := &Value{T: cur.T, C: append([]*Term(nil), cur.C...)}
		nv.C[comp] = arr
		if len(l.path) == 0 && l.local != nil {
			st.locals[l.local] = nv
			if ex.discover != nil {
				ex.discover.locals[l.local] = true
			}
			return
		}
		ex.store(st, l, nv)
		return
	}
	rt := sliceRootType(s.T)
	c := ex.L.Backing(backingElem(rt))[comp]
	key := typeKey(rt)
	if ex.discover != nil && !ex.isFreshRef(s.C[0]) {
		ex.discover.noteWrite(fmt.Sprintf("%s|%d", key, comp), heapKeyInfo{rootKey: key, root: rt, comp: comp, sort: c.Sort}, s.C[0])
	}
	h := ex.heapMap(st, key, comp, c.Sort)
	ex.setHeapMap(st, key, comp, ex.tb.Store(h, s.C[0], arr))
}

func (ex *Exec) elemComps(t types.Type) int {
	return len(ex.L.Of(t.Underlying().(*types.Slice).Elem()).Comps)
}

func (ex *Exec) builtinAppend(st *State, a, b *Value, retT types.Type, site ssa.Instruction) *Value {
	tb := ex.tb
	// A-APPEND: the result is modelled as a fresh backing array holding a's
	// elements followed by b's; aliasing with a's spare capacity is not modelled.
	la := a.C[2]
	var lb *Term
	bIsString := isStringType(b.T)
	if bIsString {
		lb = b.C[2]
	} else {
		lb = b.C[2]
	}
	nlen := ex.add(la, lb)
	ncap := tb.Fresh("appcap", la.Sort)
	ex.assume(st, ex.le(nlen, ncap))
	ref := ex.newRef(st)
	res := &Value{T: retT, C: []*Term{ref, a.C[1], nlen, ncap}}
	n := ex.elemComps(a.T)
	for comp := 0; comp < n; comp++ {
		old := ex.backingArray(st, a, comp)
		var narr *Term
		if lb.ival != nil && lb.ival.IsInt64() && lb.ival.Int64() <= 16 {
			narr = old
			for k := int64(0); k < lb.ival.Int64(); k++ {
				var e *Term
				if bIsString {
					e = tb.Select(b.C[0], ex.add(b.C[1], ex.idxLit(k)))
				} else {
					e = tb.Select(ex.backingArray(st, b, comp), ex.add(b.C[1], ex.idxLit(k)))
				}
				narr = tb.Store(narr, ex.add(ex.add(a.C[1], la), ex.idxLit(k)), e)
			}
		} else {
			narr = tb.Fresh("apparr", old.Sort)
			i := tb.BVar("ai", la.Sort)
			var src *Term
			if bIsString {
				src = tb.Select(b.C[0], ex.add(b.C[1], i))
			} else {
				src = tb.Select(ex.backingArray(st, b, comp), ex.add(b.C[1], i))
			}
			ex.assume(st, tb.Forall([]*Term{i}, tb.Implies(tb.And(ex.geZero(i), ex.lt(i, la)),
				tb.Eq(tb.Select(narr, ex.add(a.C[1], i)), tb.Select(old, ex.add(a.C[1], i))))))
			ex.assume(st, tb.Forall([]*Term{i}, tb.Implies(tb.And(ex.geZero(i), ex.lt(i, lb)),
				tb.Eq(tb.Select(narr, ex.add(ex.add(a.C[1], la), i)), src))))
		}
		ex.setBackingArray(st, res, comp, narr)
	}
	return res
}

func (ex *Exec) builtinCopy(st *State, dst, src *Value, site ssa.Instruction) *Value {
	tb := ex.tb
	ld := dst.C[2]
	var ls, soff *Term
	srcIsString := isStringType(src.T)
	ls, soff = src.C[2], src.C[1]
	n := tb.Ite(ex.lt(ld, ls), ld, ls)
	ncomp := ex.elemComps(dst.T)
	// static bound on n, if any
	bound := int64(-1)
	if ld.ival != nil && ld.ival.IsInt64() {
		bound = ld.ival.Int64()
	}
	if ls.ival != nil && ls.ival.IsInt64() && (bound < 0 || ls.ival.Int64() < bound) {
		bound = ls.ival.Int64()
	}
	for comp := 0; comp < ncomp; comp++ {
		old := ex.backingArray(st, dst, comp)
		var sarr *Term
		if srcIsString {
			sarr = src.C[0]
		} else {
			sarr = ex.backingArray(st, src, comp)
		}
		var narr *Term
		if bound >= 0 && bound <= 32 {
			narr = old
			for k := int64(0); k < bound; k++ {
				kk := ex.idxLit(k)
				e := tb.Ite(ex.lt(kk, n), tb.Select(sarr, ex.add(soff, kk)), tb.Select(old, ex.add(dst.C[1], kk)))
				narr = tb.Store(narr, ex.add(dst.C[1], kk), e)
			}
		} else {
			narr = tb.Fresh("cpy", old.Sort)
			i := tb.BVar("ci", ld.Sort)
			inRange := tb.And(ex.le(dst.C[1], i), ex.lt(i, ex.add(dst.C[1], n)))
			ex.assume(st, tb.Forall([]*Term{i}, tb.Eq(tb.Select(narr, i),
				tb.Ite(inRange, tb.Select(sarr, ex.add(soff, ex.sub(i, dst.C[1]))), tb.Select(old, i)))))
		}
		ex.setBackingArray(st, dst, comp, narr)
	}
	return ex.intV(n, types.Typ[types.Int])
}

// ---- strings ----

func (ex *Exec) stringIndex(st *State, s *Value, idx *Term, in ssa.Instruction) *Value {
	tb := ex.tb
	arr, off, ln := ex.strParts(s)
	ex.oblige(st, "index", ex.siteWhat(in), tb.And(ex.geZero(idx), ex.lt(idx, ln)), in, "index out of range")
	b := tb.Select(arr, ex.add(off, idx))
	ex.assume(st, ex.intRange(b, types.Typ[types.Uint8]))
	return ex.intV(b, types.Typ[types.Uint8])
}

func (ex *Exec) strByte(st *State, s *Value, idx *Term) *Term {
	b := ex.tb.Select(s.C[0], ex.add(s.C[1], idx))
	ex.assume(st, ex.intRange(b, types.Typ[types.Uint8]))
	return b
}

func (ex *Exec) strEq(a1, o1, l1, a2, o2, l2 *Term) *Term {
	tb := ex.tb
	lenEq := tb.Eq(l1, l2)
	if lenEq.IsFalse() {
		return tb.False
	}
	// literal length: pointwise
	for _, l := range []*Term{l1, l2} {
		if l.ival != nil && l.ival.IsInt64() && l.ival.Int64() <= 64 {
			cs := []*Term{lenEq}
			for k := int64(0); k < l.ival.Int64(); k++ {
				kk := ex.idxLit(k)
				cs = append(cs, tb.Eq(tb.Select(a1, ex.add(o1, kk)), tb.Select(a2, ex.add(o2, kk))))
			}
			return tb.And(cs...)
		}
	}
	if a1 == a2 && o1 == o2 {
		return lenEq
	}
	i := tb.BVar("si", l1.Sort)
	return tb.And(lenEq, tb.Forall([]*Term{i}, tb.Implies(tb.And(ex.geZero(i), ex.lt(i, l1)),
		tb.Eq(tb.Select(a1, ex.add(o1, i)), tb.Select(a2, ex.add(o2, i))))))
}

func (ex *Exec) stringBinop(st *State, op token.Token, x, y *Value, rt types.Type, in ssa.Instruction) *Value {
	tb := ex.tb
	switch op {
	case token.EQL, token.NEQ:
		eq := ex.strEq(x.C[0], x.C[1], x.C[2], y.C[0], y.C[1], y.C[2])
		if op == token.NEQ {
			eq = tb.Not(eq)
		}
		return ex.boolV(eq)
	case token.ADD:
		return ex.concat(st, x, y, rt)
	case token.LSS, token.LEQ, token.GTR, token.GEQ:
		// lexicographic order: abstracted to an uninterpreted total preorder result
		ex.note("string ordering abstracted")
		return ex.boolV(tb.Fresh("strcmp", SBool))
	}
	panic("stringBinop " + op.String())
}

func (ex *Exec) concat(st *State, x, y *Value, rt types.Type) *Value {
	tb := ex.tb
	lx, ly := x.C[2], y.C[2]
	if lx.ival != nil && lx.ival.Sign() == 0 {
		return &Value{T: rt, C: y.C}
	}
	if ly.ival != nil && ly.ival.Sign() == 0 {
		return &Value{T: rt, C: x.C}
	}
	// result: a fresh array at offset 0.  Literal parts are pinned pointwise,
	// symbolic parts by a quantifier over the absolute index of the result
	// (pattern: select R i), which instantiates well.
	if ly.ival != nil && ly.ival.IsInt64() && ly.ival.Int64() <= 64 {
		// literal suffix: x's own array with the suffix stored behind it (no quantifier)
		a := x.C[0]
		for k := int64(0); k < ly.ival.Int64(); k++ {
			kk := ex.idxLit(k)
			a = tb.Store(a, ex.add(ex.add(x.C[1], lx), kk), tb.Select(y.C[0], ex.add(y.C[1], kk)))
		}
		return &Value{T: rt, C: []*Term{a, x.C[1], ex.add(lx, ly)}}
	}
	arr := tb.Fresh("cat", x.C[0].Sort)
	off := ex.idxLit(0)
	i := tb.BVar("ki", lx.Sort)
	part := func(src *Value, base *Term, n *Term) {
		if n.ival != nil && n.ival.IsInt64() && n.ival.Int64() <= 64 {
			for k := int64(0); k < n.ival.Int64(); k++ {
				kk := ex.idxLit(k)
				ex.assume(st, tb.Eq(tb.Select(arr, ex.add(base, kk)), tb.Select(src.C[0], ex.add(src.C[1], kk))))
			}
			return
		}
		ex.assume(st, tb.Forall([]*Term{i}, tb.Implies(tb.And(ex.le(base, i), ex.lt(i, ex.add(base, n))),
			tb.Eq(tb.Select(arr, i), tb.Select(src.C[0], ex.add(src.C[1], ex.sub(i, base)))))))
	}
	part(x, ex.idxLit(0), lx)
	part(y, lx, ly)
	return &Value{T: rt, C: []*Term{arr, off, ex.add(lx, ly)}}
}

func (ex *Exec) toString(st *State, x *Value, to types.Type, in ssa.Instruction) *Value {
	tb := ex.tb
	switch u := x.T.Underlying().(type) {
	case *types.Slice:
		if b, ok := u.Elem().Underlying().(*types.Basic); ok && b.Kind() == types.Uint8 {
			arr := ex.backingArray(st, x, 0)
			return &Value{T: to, C: []*Term{arr, x.C[1], x.C[2]}}
		}
	case *types.Basic:
		if u.Info()&types.IsInteger != 0 {
			// string(rune): ASCII exact, otherwise 1..4 bytes
			c := x.C[0]
			arr := tb.Fresh("runestr", ex.L.Of(types.Typ[types.String]).Comps[0].Sort)
			ln := tb.Fresh("runelen", c.Sort)
			ascii := tb.And(ex.geZero(c), ex.lt(c, ex.intLit(128, x.T)))
			ex.assume(st, tb.And(tb.Le(tb.Int(1), ln), tb.Le(ln, tb.Int(4))))
			ex.assume(st, tb.Implies(ascii, tb.And(tb.Eq(ln, tb.Int(1)), tb.Eq(tb.Select(arr, tb.Int(0)), c))))
			ex.assume(st, tb.Implies(tb.Not(ascii), tb.Ge(tb.Select(arr, tb.Int(0)), tb.Int(128))))
			return &Value{T: to, C: []*Term{arr, ex.idxLit(0), ln}}
		}
	}
	ex.note("conversion to string abstracted from " + x.T.String())
	hv, f := ex.havoc(to, "tostr")
	ex.assume(st, f)
	return hv
}

func (ex *Exec) stringToSlice(st *State, x *Value, to types.Type, s *types.Slice, in ssa.Instruction) *Value {
	if b, ok := s.Elem().Underlying().(*types.Basic); ok && b.Kind() == types.Uint8 {
		ref := ex.newRef(st)
		res := &Value{T: to, C: []*Term{ref, x.C[1], x.C[2], x.C[2]}}
		ex.setBackingArrayFresh(st, res, 0, x.C[0])
		return res
	}
	ex.note("string -> []rune abstracted")
	hv, f := ex.havoc(to, "runes")
	ex.assume(st, f)
	return hv
}

// setBackingArrayFresh initialises the backing of a freshly allocated slice
// (not a caller-visible write).
func (ex *Exec) setBackingArrayFresh(st *State, s *Value, comp int, arr *Term) {
	saved := ex.discover
	ex.discover = nil
	q := ex.quiet
	ex.setBackingArray(st, s, comp, arr)
	ex.discover = saved
	ex.quiet = q
}

// ---- range ----

type rangeState struct {
	kind string // "string", "map", "chan"
	x    *Value
	pos  *ssa.Alloc
}

func (ex *Exec) rangeInit(st *State, x *Value, in *ssa.Range) *Value {
	// iterator state lives in a ghost cell keyed by the Range instruction
	key := fmt.Sprintf("$range.%s.%d", in.Parent().Name(), in.Pos())
	ex.setGhost(st, key, ex.intV(ex.idxLit(0), types.Typ[types.Int]))
	return &Value{T: in.Type(), C: []*Term{ex.refLit(0)}, F: &FuncInfo{Builtin: "$range:" + key, Bindings: []*Value{x}}}
}

func (ex *Exec) rangeNext(fr *Frame, st *State, in *ssa.Next) *Value {
	tb := ex.tb
	it := ex.eval(fr, st, in.Iter)
	tt := in.Type().(*types.Tuple)
	if it.F == nil || !strings.HasPrefix(it.F.Builtin, "$range:") {
		hv, f := ex.havoc(tt, "next")
		ex.assume(st, f)
		return hv
	}
	key := strings.TrimPrefix(it.F.Builtin, "$range:")
	x := it.F.Bindings[0]
	if in.IsString {
		posV := ex.getGhost(st, key, types.Typ[types.Int])
		pos := posV.C[0]
		ln := x.C[2]
		ok := tb.And(ex.geZero(pos), ex.lt(pos, ln))
		b := tb.Select(x.C[0], ex.add(x.C[1], pos))
		ex.assume(st, ex.intRange(b, types.Typ[types.Uint8]))
		r := tb.Fresh("rune", ex.L.intSort(types.Typ[types.Int32]))
		w := tb.Fresh("runew", pos.Sort)
		ascii := tb.Lt(b, tb.Int(128))
		ex.assume(st, tb.Ite(ascii,
			tb.And(tb.Eq(r, b), tb.Eq(w, tb.Int(1))),
			tb.And(tb.Ge(r, tb.Int(128)), tb.Le(r, tb.Int(0x10FFFF)), tb.Ge(w, tb.Int(1)), tb.Le(w, tb.Int(4)), tb.Le(ex.add(pos, w), ln))))
		ex.setGhost(st, key, ex.intV(tb.Ite(ok, ex.add(pos, w), pos), types.Typ[types.Int]))
		return ex.mkTuple(tt, ex.boolV(ok), ex.intV(pos, types.Typ[types.Int]), ex.intV(r, types.Typ[types.Int32]))
	}
	// map iteration: an arbitrary present key
	mt, isMap := x.T.Underlying().(*types.Map)
	if !isMap {
		hv, f := ex.havoc(tt, "next")
		ex.assume(st, f)
		return hv
	}
	ok := tb.Fresh("mapnext", SBool)
	k, kf := ex.havoc(mt.Key(), "mapkey")
	ex.assume(st, kf)
	has, val := ex.mapRead(st, x, k)
	ex.assume(st, tb.Implies(ok, has))
	kt, vt := tt.At(1).Type(), tt.At(2).Type()
	kv, vv := k, val
	if !types.Identical(kt, mt.Key()) {
		kv = ex.zero(kt) // unused key (blank)
	}
	if !types.Identical(vt, mt.Elem()) {
		vv = ex.zero(vt)
	}
	return ex.mkTuple(tt, ex.boolV(ok), kv, vv)
}

// ---- maps ----

func (ex *Exec) mapKeyTerm(st *State, k *Value) *Term {
	tb := ex.tb
	if isStringType(k.T) {
		// key identity of a string: literal strings get their own id; otherwise an
		// uninterpreted function of the representation (equal representation =>
		// equal key; nothing else assumed).
		tb.DeclareUF("strkey", []Sort{k.C[0].Sort, k.C[1].Sort, k.C[2].Sort}, SInt)
		return tb.App("strkey", SInt, k.C[0], k.C[1], k.C[2])
	}
	if len(k.C) == 1 && k.C[0].Sort == SInt {
		return k.C[0]
	}
	if len(k.C) == 1 && k.C[0].Sort == SBool {
		return tb.Ite(k.C[0], tb.Int(1), tb.Int(0))
	}
	ex.note("map key of composite type abstracted")
	return tb.Fresh("mapkeyid", SInt)
}

func (ex *Exec) mapRootKey(m *Value) (string, *types.Map) {
	mt := m.T.Underlying().(*types.Map)
	return "map:" + typeKey(mt), mt
}

func (ex *Exec) mapInit(st *State, m *Value) {
	key, mt := ex.mapRootKey(m)
	hs := ArrOf(SBool)
	h := ex.heapMap(st, key, 0, hs)
	ex.setHeapMap(st, key, 0, ex.tb.Store(h, m.C[0], ex.tb.ConstArr(hs, ex.tb.False)))
	_ = mt
}

func (ex *Exec) mapRead(st *State, m *Value, k *Value) (*Term, *Value) {
	tb := ex.tb
	key, mt := ex.mapRootKey(m)
	kt := ex.mapKeyTerm(st, k)
	has := tb.Select(tb.Select(ex.heapMap(st, key, 0, ArrOf(SBool)), m.C[0]), kt)
	comps := ex.L.Of(mt.Elem()).Comps
	v := &Value{T: mt.Elem(), C: make([]*Term, len(comps))}
	for i, c := range comps {
		v.C[i] = tb.Select(tb.Select(ex.heapMap(st, key, i+1, ArrOf(c.Sort)), m.C[0]), kt)
	}
	ex.assume(st, ex.typeFacts(v))
	return has, v
}

func (ex *Exec) mapLookup(st *State, m *Value, k *Value, commaOk bool, rt types.Type) *Value {
	mt := m.T.Underlying().(*types.Map)
	has, v := ex.mapRead(st, m, k)
	// nil map reads as empty
	has = ex.tb.And(has, ex.tb.Ne(m.C[0], ex.refLit(0)))
	r := ex.iteValue(has, v, ex.zero(mt.Elem()))
	if commaOk {
		return ex.mkTuple(rt, r, ex.boolV(has))
	}
	return r
}

func (ex *Exec) mapStore(st *State, m *Value, k *Value, v *Value) {
	tb := ex.tb
	key, mt := ex.mapRootKey(m)
	kt := ex.mapKeyTerm(st, k)
	hs := ArrOf(SBool)
	h := ex.heapMap(st, key, 0, hs)
	if ex.discover != nil {
		ex.discover.noteWrite(key+"|0", heapKeyInfo{rootKey: key, comp: 0, sort: hs}, m.C[0])
	}
	ex.setHeapMap(st, key, 0, tb.Store(h, m.C[0], tb.Store(tb.Select(h, m.C[0]), kt, tb.True)))
	for i, c := range ex.L.Of(mt.Elem()).Comps {
		hv := ex.heapMap(st, key, i+1, ArrOf(c.Sort))
		if ex.discover != nil {
			ex.discover.noteWrite(fmt.Sprintf("%s|%d", key, i+1), heapKeyInfo{rootKey: key, comp: i + 1, sort: ArrOf(c.Sort)}, m.C[0])
		}
		ex.setHeapMap(st, key, i+1, tb.Store(hv, m.C[0], tb.Store(tb.Select(hv, m.C[0]), kt, v.C[i])))
	}
}

func (ex *Exec) mapDelete(st *State, m *Value, k *Value) {
	tb := ex.tb
	key, _ := ex.mapRootKey(m)
	kt := ex.mapKeyTerm(st, k)
	hs := ArrOf(SBool)
	h := ex.heapMap(st, key, 0, hs)
	if ex.discover != nil {
		ex.discover.noteWrite(key+"|0", heapKeyInfo{rootKey: key, comp: 0, sort: hs}, m.C[0])
	}
	ex.setHeapMap(st, key, 0, tb.Store(h, m.C[0], tb.Store(tb.Select(h, m.C[0]), kt, tb.False)))
}

func (ex *Exec) mapLen(st *State, m *Value) *Term {
	hv, f := ex.havoc(types.Typ[types.Int], "maplen")
	ex.assume(st, ex.tb.And(f, ex.geZero(hv.C[0])))
	return hv.C[0]
}

// ---- ghost ----

func (ex *Exec) ghostInit(name string) *Value {
	if g, ok := ex.prog.ghostDecls[name]; ok {
		return ex.zero(g)
	}
	return ex.intV(ex.idxLit(0), types.Typ[types.Int])
}

func (ex *Exec) getGhost(st *State, name string, t types.Type) *Value {
	if v, ok := st.ghost[name]; ok {
		return v
	}
	v := ex.ghostInit(name)
	st.ghost[name] = v
	return v
}

func (ex *Exec) setGhost(st *State, name string, v *Value) {
	st.ghost[name] = v
	if ex.discover != nil {
		ex.discover.ghosts[name] = true
	}
}

var _ = strconv.Itoa

// functionalResult: the result components of a deterministic extern are
// uninterpreted functions of all argument components.
func (ex *Exec) functionalResult(c *FuncContract, args []*Value, retT types.Type) *Value {
	var as []*Term
	var sorts []Sort
	for _, a := range args {
		for _, t := range a.C {
			as = append(as, t)
			sorts = append(sorts, t.Sort)
		}
	}
	l := ex.L.Of(retT)
	v := &Value{T: retT, C: make([]*Term, len(l.Comps))}
	for i, comp := range l.Comps {
		name := fmt.Sprintf("fn$%s$%d$%d", c.Name, i, len(as))
		ex.tb.DeclareUF(name, sorts, comp.Sort)
		v.C[i] = ex.tb.App(name, comp.Sort, as...)
	}
	return v
}

// funcFieldName: "field:pkg.T.f" when v is a function value loaded from field f of struct T.
func funcFieldName(v ssa.Value) string {
	ld, ok := v.(*ssa.UnOp)
	if !ok || ld.Op != token.MUL {
		return ""
	}
	// a function value captured by a closure: funcvalue:<pkg>.<enclosing function>.<variable>
	if fv, ok := ld.X.(*ssa.FreeVar); ok && fv.Parent() != nil && fv.Parent().Pkg != nil {
		if _, isFn := deref(fv.Type()).Underlying().(*types.Signature); isFn {
			return "funcvalue:" + funcShortName(fv.Parent()) + "." + fv.Name()
		}
	}
	fa, ok := ld.X.(*ssa.FieldAddr)
	if !ok {
		return ""
	}
	pt, ok := fa.X.Type().Underlying().(*types.Pointer)
	if !ok {
		return ""
	}
	n, ok := pt.Elem().(*types.Named)
	if !ok {
		return ""
	}
	st, ok := n.Underlying().(*types.Struct)
	if !ok {
		return ""
	}
	pkg := ""
	if n.Obj().Pkg() != nil {
		pkg = n.Obj().Pkg().Name() + "."
	}
	return "field:" + pkg + n.Obj().Name() + "." + st.Field(fa.Field).Name()
}

func exprMentions(e Expr, names map[string]bool) bool {
	if len(names) == 0 {
		return false
	}
	switch e := e.(type) {
	case *EIdent:
		return names[e.Name]
	case *EUnary:
		return exprMentions(e.X, names)
	case *EBinary:
		return exprMentions(e.X, names) || exprMentions(e.Y, names)
	case *ECall:
		for _, a := range e.Args {
			if exprMentions(a, names) {
				return true
			}
		}
	case *EIndex:
		return exprMentions(e.X, names) || exprMentions(e.I, names)
	case *ESlice:
		return exprMentions(e.X, names) || (e.Lo != nil && exprMentions(e.Lo, names)) || (e.Hi != nil && exprMentions(e.Hi, names))
	case *EField:
		return exprMentions(e.X, names)
	case *EQuant:
		return exprMentions(e.Body, names)
	}
	return false
}

func (ex *Exec) forbidCheck(fr *Frame, st *State, name string, site ssa.Instruction) {
	c := fr.contract
	if c == nil {
		c = ex.prog.contractFor(fr.fn)
	}
	if c == nil {
		return
	}
	for _, r := range c.Forbid {
		if !strings.HasPrefix(name, r.Prefix) {
			continue
		}
		ok := false
		for _, e := range r.Except {
			if e == name {
				ok = true
			}
		}
		if !ok {
			n := len(ex.obls)
			ex.oblige(st, "forbidden-call", ex.siteWhat(site), ex.tb.False, site, "call to "+name+" is not allowed here by the contract")
			if len(ex.obls) > n && r.Props != nil {
				ex.obls[n].Props = r.Props
			}
		}
	}
}
