package main

import (
	"bytes"
	"fmt"
	"go/ast"
	"go/printer"
	"go/token"
	"go/types"
	"path/filepath"
	"sort"
	"strings"

	"golang.org/x/tools/go/ast/astutil"
	"golang.org/x/tools/go/packages"
	"golang.org/x/tools/go/ssa"
	"golang.org/x/tools/go/ssa/ssautil"
)

type Program struct {
	fset     *token.FileSet
	pkgs     []*packages.Package
	prog     *ssa.Program
	spkgs    []*ssa.Package
	repoDir  string
	modPath  string
	funcs    map[string]*ssa.Function // short name -> function (in-repo and deps)
	contracts map[string]*FuncContract // short name -> contract (in-repo functions)
	externs  map[string]*FuncContract
	preds    map[string]*PredDef
	ufs      map[string]*UFDef
	axioms   []*Clause
	lemmas   []*Lemma
	ghostDecls map[string]types.Type
	specConsts map[string]string
	abstractDefs map[string][][2]string
	escCache map[*ssa.Alloc]bool
	siteCache map[ssa.Instruction]string
	allocIdx map[*ssa.Function]map[token.Pos]*ssa.Alloc
	assignedGlobals map[*ssa.Global]bool
	globalByObj map[types.Object]*ssa.Global
	pkgByTypes map[*types.Package]*packages.Package
	specFiles []string
	missing   []*FuncContract // contracts whose function no longer exists
}

func loadProgram(repoDir string, patterns []string, overlay map[string][]byte) (*Program, error) {
	cfg := &packages.Config{
		Mode:       packages.LoadAllSyntax,
		Dir:        repoDir,
		BuildFlags: []string{"-tags=verif"},
		Overlay:    overlay,
		Env:        goEnv(),
	}
	pkgs, err := packages.Load(cfg, patterns...)
	if err != nil {
		return nil, err
	}
	var errs []string
	packages.Visit(pkgs, nil, func(p *packages.Package) {
		for _, e := range p.Errors {
			if strings.HasPrefix(p.PkgPath, "github.com/la5nta") {
				errs = append(errs, e.Error())
			}
		}
	})
	if len(errs) > 0 {
		return nil, fmt.Errorf("package errors:\n%s", strings.Join(errs, "\n"))
	}
	prog, spkgs := ssautil.AllPackages(pkgs, ssa.NaiveForm|ssa.GlobalDebug)
	prog.Build()
	p := &Program{
		fset: pkgs[0].Fset, pkgs: pkgs, prog: prog, spkgs: spkgs, repoDir: repoDir,
		funcs: map[string]*ssa.Function{}, contracts: map[string]*FuncContract{}, externs: map[string]*FuncContract{},
		preds: map[string]*PredDef{}, ufs: map[string]*UFDef{}, ghostDecls: map[string]types.Type{},
		specConsts: map[string]string{}, abstractDefs: map[string][][2]string{},
		escCache: map[*ssa.Alloc]bool{}, siteCache: map[ssa.Instruction]string{},
		allocIdx: map[*ssa.Function]map[token.Pos]*ssa.Alloc{},
		globalByObj: map[types.Object]*ssa.Global{}, pkgByTypes: map[*types.Package]*packages.Package{},
	}
	p.modPath = "github.com/la5nta/wl2k-go"
	packages.Visit(pkgs, nil, func(pk *packages.Package) { p.pkgByTypes[pk.Types] = pk })
	for fn := range ssautil.AllFunctions(prog) {
		if fn == nil {
			continue
		}
		name := funcShortName(fn)
		if old, ok := p.funcs[name]; ok {
			// prefer the one with a body / in-repo
			if len(old.Blocks) > 0 && len(fn.Blocks) == 0 {
				continue
			}
		}
		p.funcs[name] = fn
	}
	for _, sp := range prog.AllPackages() {
		for _, m := range sp.Members {
			if g, ok := m.(*ssa.Global); ok && g.Object() != nil {
				p.globalByObj[g.Object()] = g
			}
		}
	}
	return p, nil
}

func (p *Program) inRepo(fn *ssa.Function) bool {
	pk := fn.Pkg
	if pk == nil && fn.Parent() != nil {
		return p.inRepo(fn.Parent())
	}
	if pk == nil {
		if fn.Object() != nil && fn.Object().Pkg() != nil {
			return strings.HasPrefix(fn.Object().Pkg().Path(), p.modPath)
		}
		return false
	}
	return strings.HasPrefix(pk.Pkg.Path(), p.modPath)
}

// ---- contracts ----

func (p *Program) loadSpecs(extraDirs []string) error {
	var files []string
	// comment-only contract files in the repo packages
	packages.Visit(p.pkgs, nil, func(pk *packages.Package) {
		if !strings.HasPrefix(pk.PkgPath, p.modPath) {
			return
		}
		for _, f := range pk.GoFiles {
			if strings.HasSuffix(f, "_verif.go") {
				files = append(files, f)
			}
		}
		// files excluded by build constraints are not listed; look on disk as well
		if len(pk.GoFiles) > 0 {
			dir := filepath.Dir(pk.GoFiles[0])
			matches, _ := filepath.Glob(filepath.Join(dir, "*_verif.go"))
			for _, m := range matches {
				dup := false
				for _, f := range files {
					if f == m {
						dup = true
					}
				}
				if !dup {
					files = append(files, m)
				}
			}
		}
	})
	for _, d := range extraDirs {
		matches, _ := filepath.Glob(filepath.Join(d, "*.spec"))
		sort.Strings(matches)
		files = append(files, matches...)
	}
	sort.Strings(files)
	p.specFiles = files
	for _, f := range files {
		sf, err := parseSpecFile(f)
		if err != nil {
			return err
		}
		var pkgT *types.Package
		if !strings.HasSuffix(f, ".spec") {
			dir := filepath.Dir(f)
			packages.Visit(p.pkgs, nil, func(pk *packages.Package) {
				if len(pk.GoFiles) > 0 && filepath.Dir(pk.GoFiles[0]) == dir {
					pkgT = pk.Types
				}
			})
		}
		for _, fc := range sf.Funcs {
			fc.Pkg = pkgT
			if fc.Extern {
				if _, dup := p.externs[fc.Name]; dup {
					return fmt.Errorf("%s:%d: duplicate extern contract %s", f, fc.Line, fc.Name)
				}
				p.externs[fc.Name] = fc
				if fn := p.funcs[fc.Name]; fn != nil {
					fc.Fn = fn
					if fc.Pkg == nil && fn.Pkg != nil {
						fc.Pkg = fn.Pkg.Pkg
					}
				}
				continue
			}
			fn := p.funcs[fc.Name]
			if fn == nil {
				// the function under contract disappeared: a failed shape obligation, not a tool error
				p.missing = append(p.missing, fc)
				continue
			}
			fc.Fn = fn
			if fc.Pkg == nil && fn.Pkg != nil {
				fc.Pkg = fn.Pkg.Pkg
			}
			if _, dup := p.contracts[fc.Name]; dup {
				return fmt.Errorf("%s:%d: duplicate contract %s", f, fc.Line, fc.Name)
			}
			p.contracts[fc.Name] = fc
		}
		for _, pd := range sf.Preds {
			pd.Pkg = pkgT
			p.preds[pd.Name] = pd
		}
		for _, uf := range sf.UFs {
			p.ufs[uf.Name] = uf
		}
		for _, ax := range sf.Axioms {
			p.axioms = append(p.axioms, ax)
		}
		for _, l := range sf.Lemmas {
			l.Pkg = pkgT
			p.lemmas = append(p.lemmas, l)
		}
		for n, t := range sf.Ghosts {
			gt := p.lookupType(t, pkgT)
			if gt == nil {
				return fmt.Errorf("%s: ghost var %s: unknown type %s", f, n, t)
			}
			p.ghostDecls[n] = gt
		}
		for n, v := range sf.Consts {
			p.specConsts[n] = v
		}
		for n, fs := range sf.Abstracts {
			p.abstractDefs[n] = fs
		}
	}
	return nil
}

func (p *Program) contractFor(fn *ssa.Function) *FuncContract {
	return p.contracts[funcShortName(fn)]
}
func (p *Program) contractByName(n string) *FuncContract { return p.contracts[n] }
func (p *Program) externFor(n string) *FuncContract      { return p.externs[n] }

// lookupType resolves "pkg.Name", "Name" (in pkg), "*T", "[]T" and basic types.
func (p *Program) lookupType(name string, pkg *types.Package) types.Type {
	name = strings.TrimSpace(name)
	switch {
	case strings.HasPrefix(name, "*"):
		if t := p.lookupType(name[1:], pkg); t != nil {
			return types.NewPointer(t)
		}
		return nil
	case strings.HasPrefix(name, "map["):
		if i := strings.Index(name, "]"); i > 0 {
			k, v := p.lookupType(name[4:i], pkg), p.lookupType(name[i+1:], pkg)
			if k != nil && v != nil {
				return types.NewMap(k, v)
			}
		}
		return nil
	case strings.HasPrefix(name, "[]"):
		if t := p.lookupType(name[2:], pkg); t != nil {
			return types.NewSlice(t)
		}
		return nil
	case strings.HasPrefix(name, "["):
		if i := strings.Index(name, "]"); i > 0 {
			var n int64
			if _, err := fmt.Sscanf(name[1:i], "%d", &n); err == nil {
				if t := p.lookupType(name[i+1:], pkg); t != nil {
					return types.NewArray(t, n)
				}
			}
		}
		return nil
	}
	for _, b := range types.Typ {
		if b.Name() == name {
			return b
		}
	}
	if name == "byte" {
		return types.Typ[types.Uint8]
	}
	if name == "error" {
		return types.Universe.Lookup("error").Type()
	}
	if i := strings.LastIndex(name, "."); i >= 0 {
		pn, tn := name[:i], name[i+1:]
		var found types.Type
		packages.Visit(p.pkgs, nil, func(pk *packages.Package) {
			if found != nil {
				return
			}
			if pk.Types != nil && (pk.Types.Name() == pn || pk.PkgPath == pn) {
				if o := pk.Types.Scope().Lookup(tn); o != nil {
					if _, ok := o.(*types.TypeName); ok {
						found = o.Type()
					}
				}
			}
		})
		return found
	}
	if pkg != nil {
		if o := pkg.Scope().Lookup(name); o != nil {
			if _, ok := o.(*types.TypeName); ok {
				return o.Type()
			}
		}
	}
	return nil
}

func (p *Program) importedPkg(from *types.Package, name string) *types.Package {
	if from != nil {
		for _, imp := range from.Imports() {
			if imp.Name() == name {
				return imp
			}
		}
	}
	// spec files may name any loaded package
	var found *types.Package
	packages.Visit(p.pkgs, nil, func(pk *packages.Package) {
		if found == nil && pk.Types != nil && pk.Types.Name() == name {
			found = pk.Types
		}
	})
	return found
}

func (p *Program) lookupMethod(t types.Type, m *types.Func) *ssa.Function {
	ms := p.prog.MethodSets.MethodSet(t)
	sel := ms.Lookup(m.Pkg(), m.Name())
	if sel == nil {
		return nil
	}
	return p.prog.MethodValue(sel)
}

func (p *Program) globalFor(v *types.Var) *ssa.Global { return p.globalByObj[v] }

// globalAssigned: is the global stored to anywhere outside package initialisers?
func (p *Program) globalAssigned(g *ssa.Global) bool {
	if p.assignedGlobals == nil {
		p.assignedGlobals = map[*ssa.Global]bool{}
		for fn := range ssautil.AllFunctions(p.prog) {
			if fn.Name() == "init" || strings.HasPrefix(fn.Name(), "init#") || fn.Synthetic == "package initializer" {
				continue
			}
			for _, b := range fn.Blocks {
				for _, in := range b.Instrs {
					switch in := in.(type) {
					case *ssa.Store:
						if gg := rootGlobal(in.Addr); gg != nil {
							p.assignedGlobals[gg] = true
						}
					default:
						// address escapes (passed to a call, stored, sliced...)
						for _, op := range in.Operands(nil) {
							if *op == nil {
								continue
							}
							if gg, ok := (*op).(*ssa.Global); ok {
								switch in.(type) {
								case *ssa.UnOp, *ssa.FieldAddr, *ssa.IndexAddr, *ssa.DebugRef:
								default:
									p.assignedGlobals[gg] = true
								}
							}
						}
					}
				}
			}
		}
	}
	return p.assignedGlobals[g]
}

func rootGlobal(v ssa.Value) *ssa.Global {
	for {
		switch x := v.(type) {
		case *ssa.Global:
			return x
		case *ssa.FieldAddr:
			v = x.X
		case *ssa.IndexAddr:
			v = x.X
		default:
			return nil
		}
	}
}

// constGlobal returns the value of a package-level table that is initialised
// by a composite literal of constants and never written afterwards.
func (p *Program) constGlobal(ex *Exec, g *ssa.Global) *Value {
	if g.Object() == nil || p.globalAssigned(g) {
		return nil
	}
	if v, ok := ex.globals["CG$"+g.String()]; ok {
		return v
	}
	t := deref(g.Type())
	pk := p.pkgByTypes[g.Pkg.Pkg]
	if pk == nil {
		return nil
	}
	// find the ValueSpec
	var init ast.Expr
	for _, f := range pk.Syntax {
		for _, d := range f.Decls {
			gd, ok := d.(*ast.GenDecl)
			if !ok || gd.Tok != token.VAR {
				continue
			}
			for _, s := range gd.Specs {
				vs := s.(*ast.ValueSpec)
				for i, n := range vs.Names {
					if pk.TypesInfo.Defs[n] == g.Object() && i < len(vs.Values) {
						init = vs.Values[i]
					}
				}
			}
		}
	}
	if init == nil {
		return nil
	}
	cl, ok := init.(*ast.CompositeLit)
	if !ok {
		return nil
	}
	var elemT types.Type
	var n int64
	isSlice := false
	switch u := t.Underlying().(type) {
	case *types.Array:
		elemT, n = u.Elem(), u.Len()
	case *types.Slice:
		elemT, isSlice = u.Elem(), true
	default:
		return nil
	}
	if !isIntType(elemT) {
		return nil
	}
	arrSort := ex.L.liftSort(ex.L.intSort(elemT))
	arr := ex.tb.ConstArr(arrSort, ex.zeroOfSort(ex.L.intSort(elemT)))
	idx := int64(0)
	var tabKeys, tabVals []*Term
	for _, el := range cl.Elts {
		val := el
		if kv, ok := el.(*ast.KeyValueExpr); ok {
			ktv := pk.TypesInfo.Types[kv.Key]
			if ktv.Value == nil {
				return nil
			}
			cv := ex.constToValue(ktv.Value, types.Typ[types.Int])
			idx = cv.C[0].ival.Int64()
			val = kv.Value
		}
		tv := pk.TypesInfo.Types[val]
		if tv.Value == nil {
			return nil
		}
		cv := ex.constToValue(tv.Value, elemT)
		lit := cv.C[0]
		if ex.L.bv && !lit.Sort.IsBV() {
			lit = ex.bigLit(lit.ival, elemT)
		}
		arr = ex.tb.Store(arr, ex.idxLit(idx), lit)
		tabKeys, tabVals = append(tabKeys, ex.idxLit(idx)), append(tabVals, lit)
		idx++
		if idx > n {
			n = idx
		}
	}
	if ex.L.bv && !isSlice && len(tabVals) <= 1024 {
		ex.tb.RegisterTable(arr, g.Pkg.Pkg.Name()+"."+g.Name(), ex.idxLit(0).Sort, tabKeys, tabVals, ex.zeroOfSort(ex.L.intSort(elemT)))
	}
	var v *Value
	if isSlice {
		// a fixed backing object identified by a negative ref
		ref := ex.refLit(-2000000 - int64(ex.typeID("cg:"+g.String())))
		v = &Value{T: t, C: []*Term{ref, ex.idxLit(0), ex.idxLit(n), ex.idxLit(n)}, P: nil}
		ex.constSliceArr["CG$"+g.String()] = arr
	} else {
		v = &Value{T: t, C: []*Term{arr}}
	}
	ex.globals["CG$"+g.String()] = v
	return v
}

// ---- source-derived names ----

func (p *Program) siteName(in ssa.Instruction) string {
	if n, ok := p.siteCache[in]; ok {
		return n
	}
	fn := in.Parent()
	names := p.siteNamesFor(fn)
	if n, ok := names[in]; ok {
		return n
	}
	return fmt.Sprintf("%T", in)
}

func (p *Program) siteNamesFor(fn *ssa.Function) map[ssa.Instruction]string {
	out := map[ssa.Instruction]string{}
	counts := map[string]int{}
	var file *ast.File
	if fn.Pkg != nil || fn.Parent() != nil {
		pos := fn.Pos()
		if !pos.IsValid() && fn.Syntax() != nil {
			pos = fn.Syntax().Pos()
		}
		if pos.IsValid() {
			tf := p.fset.File(pos)
			root := fn
			for root.Parent() != nil {
				root = root.Parent()
			}
			if root.Pkg != nil {
				if pk := p.pkgByTypes[root.Pkg.Pkg]; pk != nil {
					for _, f := range pk.Syntax {
						if p.fset.File(f.Pos()) == tf {
							file = f
						}
					}
				}
			}
		}
	}
	for _, b := range fn.Blocks {
		for _, in := range b.Instrs {
			if _, ok := in.(*ssa.DebugRef); ok {
				continue
			}
			text := ""
			if file != nil && in.Pos().IsValid() {
				text = p.exprTextAt(file, in)
			}
			if text == "" {
				text = strings.TrimPrefix(fmt.Sprintf("%T", in), "*ssa.")
			}
			counts[text]++
			n := text
			if counts[text] > 1 {
				n = fmt.Sprintf("%s#%d", text, counts[text])
			}
			out[in] = n
			p.siteCache[in] = n
		}
	}
	return out
}

func (p *Program) exprTextAt(file *ast.File, in ssa.Instruction) string {
	pos := in.Pos()
	path, _ := astutil.PathEnclosingInterval(file, pos, pos+1)
	var node ast.Node
	for _, n := range path {
		switch x := n.(type) {
		case *ast.IndexExpr:
			if _, ok := in.(*ssa.IndexAddr); ok && x.Lbrack == pos {
				node = x
			}
			if _, ok := in.(*ssa.Index); ok && x.Lbrack == pos {
				node = x
			}
			if _, ok := in.(*ssa.Lookup); ok && x.Lbrack == pos {
				node = x
			}
			if _, ok := in.(*ssa.MapUpdate); ok {
				node = x
			}
		case *ast.SliceExpr:
			if _, ok := in.(*ssa.Slice); ok && x.Lbrack == pos {
				node = x
			}
		case *ast.CallExpr:
			if x.Lparen == pos {
				switch in.(type) {
				case *ssa.Call, *ssa.Defer, *ssa.Go, *ssa.MakeSlice, *ssa.MakeMap, *ssa.MakeChan, *ssa.Panic, *ssa.Convert:
					node = x
				}
			}
		case *ast.TypeAssertExpr:
			if _, ok := in.(*ssa.TypeAssert); ok && x.Lparen == pos {
				node = x
			}
		case *ast.BinaryExpr:
			if _, ok := in.(*ssa.BinOp); ok && x.OpPos == pos {
				node = x
			}
		case *ast.StarExpr:
			if _, ok := in.(*ssa.UnOp); ok && x.Star == pos {
				node = x
			}
		case *ast.SelectorExpr:
			if _, ok := in.(*ssa.FieldAddr); ok && x.Sel.Pos() == pos {
				node = x
			}
		}
		if node != nil {
			break
		}
	}
	if node == nil {
		return ""
	}
	var buf bytes.Buffer
	printer.Fprint(&buf, p.fset, node)
	s := strings.Join(strings.Fields(buf.String()), " ")
	if len(s) > 80 {
		s = s[:80]
	}
	return s
}

// ---- local variable lookup for specs ----

func (p *Program) lookupLocal(fn *ssa.Function, name string, pos token.Pos) types.Object {
	root := fn
	for root.Parent() != nil {
		root = root.Parent()
	}
	if root.Pkg == nil {
		return nil
	}
	pk := p.pkgByTypes[root.Pkg.Pkg]
	if pk == nil {
		return nil
	}
	syn := fn.Syntax()
	if syn == nil {
		return nil
	}
	var ft *ast.FuncType
	switch s := syn.(type) {
	case *ast.FuncDecl:
		ft = s.Type
	case *ast.FuncLit:
		ft = s.Type
	}
	if ft == nil {
		return nil
	}
	scope := pk.TypesInfo.Scopes[ft]
	if scope == nil {
		return nil
	}
	if !pos.IsValid() || pos < scope.Pos() || pos > scope.End() {
		// function-level: parameters and results
		if o := scope.Lookup(name); o != nil {
			return o
		}
		return nil
	}
	inner := scope.Innermost(pos)
	if inner == nil {
		inner = scope
	}
	_, obj := inner.LookupParent(name, pos)
	if obj == nil {
		return nil
	}
	if _, ok := obj.(*types.Var); !ok {
		return nil
	}
	// must be local to this function (or an enclosing one)
	if obj.Parent() == pk.Types.Scope() || obj.Parent() == types.Universe {
		return nil
	}
	return obj
}

func (p *Program) allocFor(fn *ssa.Function, obj types.Object) *ssa.Alloc {
	idx, ok := p.allocIdx[fn]
	if !ok {
		idx = map[token.Pos]*ssa.Alloc{}
		for _, b := range fn.Blocks {
			for _, in := range b.Instrs {
				if a, ok := in.(*ssa.Alloc); ok && a.Pos().IsValid() {
					if _, dup := idx[a.Pos()]; !dup {
						idx[a.Pos()] = a
					}
				}
			}
		}
		p.allocIdx[fn] = idx
	}
	return idx[obj.Pos()]
}

// callOrdinal: index (in source order) of this call among the calls to the same
// callee inside its function.
func (p *Program) callOrdinal(site ssa.Instruction, name string) int {
	fn := site.Parent()
	type ent struct {
		in  ssa.Instruction
		pos token.Pos
	}
	var list []ent
	for _, b := range fn.Blocks {
		for _, in := range b.Instrs {
			ci, ok := in.(ssa.CallInstruction)
			if !ok {
				continue
			}
			c := ci.Common()
			n := ""
			if c.IsInvoke() {
				n = ifaceMethodName(c.Value.Type(), c.Method)
			} else if callee := c.StaticCallee(); callee != nil {
				n = funcShortName(callee)
			} else if fn := funcFieldName(c.Value); fn != "" {
				n = fn
			}
			if n == name {
				list = append(list, ent{in, in.Pos()})
			}
		}
	}
	sort.SliceStable(list, func(i, j int) bool { return list[i].pos < list[j].pos })
	for i, e := range list {
		if e.in == site {
			return i
		}
	}
	return -1
}

// kindOrdinal: index (in source order) of an instruction among those of the same
// hookable kind (append, send, return) in its function.
func kindMatches(in ssa.Instruction, kind string) bool {
	switch x := in.(type) {
	case *ssa.Call:
		if bi, ok := x.Call.Value.(*ssa.Builtin); ok && bi.Name() == kind && (kind == "append" || kind == "copy" || kind == "delete" || kind == "close") {
			return true
		}
	case *ssa.MapUpdate:
		return kind == "mapupdate"
	case *ssa.Send:
		return kind == "send"
	case *ssa.Return:
		return kind == "return"
	case *ssa.Go:
		return kind == "go"
	case *ssa.Select:
		return kind == "select"
	case *ssa.Store:
		if strings.HasPrefix(kind, "assign:") {
			a, ok := x.Addr.(*ssa.Alloc)
			return ok && a.Comment == strings.TrimPrefix(kind, "assign:")
		}
		return kind == "store" && isElemOrFieldStore(x)
	case *ssa.MakeChan:
		return kind == "makechan"
	case *ssa.UnOp:
		return kind == "recv" && x.Op == token.ARROW
	}
	return false
}

func (p *Program) kindOrdinal(site ssa.Instruction, kind string) int {
	if !kindMatches(site, kind) {
		return -1
	}
	fn := site.Parent()
	type ent struct {
		in  ssa.Instruction
		pos token.Pos
	}
	var list []ent
	for _, b := range fn.Blocks {
		for _, in := range b.Instrs {
			if kindMatches(in, kind) {
				list = append(list, ent{in, in.Pos()})
			}
		}
	}
	sort.SliceStable(list, func(i, j int) bool { return list[i].pos < list[j].pos })
	for i, e := range list {
		if e.in == site {
			return i
		}
	}
	return -1
}
