package main

import (
	"encoding/json"
	"flag"
	"fmt"
	"os"
	"path/filepath"
	"sort"
	"strings"
	"sync"
	"time"

	"golang.org/x/tools/go/ssa"
)

var propPackages = map[string][]string{
	"C01": {"./fbb"}, "C02": {"./fbb", "./mailbox"}, "C03": {"./fbb", "./lzhuf"}, "C04": {"./fbb", "./lzhuf"},
	"C05": {"./fbb"}, "C06": {"./lzhuf"}, "C07": {"./lzhuf"}, "C08": {"./lzhuf"}, "C09": {"./fbb"},
	"C10": {"./mailbox", "./fbb"}, "C11": {"./mailbox"}, "C12": {"./mailbox", "./fbb"},
	"C13": {"./transport/ax25/agwpe"}, "C14": {"./transport/ardop"}, "C15": {"./transport/telnet"},
	"C16": {"./fbb"}, "C17": {"./fbb"}, "C18": {"./fbb"}, "C19": {"./transport"}, "C20": {"./catalog"},
}

type KnownFinding struct {
	Property   string `json:"property"`
	Obligation string `json:"obligation"`
	What       string `json:"what"`
	Status     string `json:"status"` // open | fixed
	Commit     string `json:"commit,omitempty"`
	Witness    string `json:"witness,omitempty"`
}

type OblReport struct {
	Name     string   `json:"name"`
	Kind     string   `json:"kind"`
	Status   string   `json:"status"` // discharged | failed | undecided | known-finding
	CrossChecked bool `json:"cross_checked,omitempty"` // thorough tier: a second solver family agreed
	Solver   string   `json:"solver,omitempty"`
	Seconds  float64  `json:"seconds"`
	Pos      string   `json:"pos,omitempty"`
	Tried    []string `json:"tried,omitempty"`
	Replay   string   `json:"replay,omitempty"`
	SMTBytes int      `json:"smt_bytes"`
}

func main() {
	// everything (go/packages, replays) must use the offline go1.26.8 toolchain
	os.Setenv("PATH", "/opt/veriftools/go1.26.8/bin:"+os.Getenv("PATH"))
	os.Setenv("GOFLAGS", "-mod=mod")
	os.Setenv("GOPROXY", "off")
	os.Setenv("GOSUMDB", "off")
	os.Setenv("GOTOOLCHAIN", "local")
	if len(os.Args) < 2 {
		fmt.Fprintln(os.Stderr, "usage: govc check|dump|list ...")
		os.Exit(2)
	}
	switch os.Args[1] {
	case "check":
		os.Exit(cmdCheck(os.Args[2:]))
	case "dump":
		os.Exit(cmdDump(os.Args[2:]))
	case "replay":
		os.Exit(cmdReplay(os.Args[2:]))
	default:
		fmt.Fprintln(os.Stderr, "unknown command", os.Args[1])
		os.Exit(2)
	}
}

func cmdDump(args []string) int {
	fs := flag.NewFlagSet("dump", flag.ExitOnError)
	repo := fs.String("repo", "/repo", "repository")
	pkgs := fs.String("pkgs", "./fbb,./lzhuf", "packages")
	fn := fs.String("func", "", "short function name")
	fs.Parse(args)
	p, err := loadProgram(*repo, strings.Split(*pkgs, ","), nil)
	if err != nil {
		fmt.Fprintln(os.Stderr, err)
		return 2
	}
	f := p.funcs[*fn]
	if f == nil {
		var names []string
		for n, f := range p.funcs {
			if p.inRepo(f) && strings.Contains(n, *fn) {
				names = append(names, n)
			}
		}
		sort.Strings(names)
		fmt.Println(strings.Join(names, "\n"))
		return 1
	}
	f.WriteTo(os.Stdout)
	ex := newExec(p, "")
	loops := ex.findLoops(f)
	var lis []*loopInfo
	for _, li := range loops {
		lis = append(lis, li)
	}
	sort.Slice(lis, func(i, j int) bool { return lis[i].ordinal < lis[j].ordinal })
	for _, li := range lis {
		fmt.Printf("loop %d: header block %d at %s (%d blocks)\n", li.ordinal, li.header.Index, p.fset.Position(li.minPos), len(li.blocks))
	}
	return 0
}

func cmdCheck(args []string) int {
	fs := flag.NewFlagSet("check", flag.ExitOnError)
	repo := fs.String("repo", "/repo", "repository working tree")
	prop := fs.String("prop", "", "property id")
	tier := fs.String("tier", "quick", "quick|thorough")
	specDir := fs.String("spec", "/verif/spec", "spec directory")
	evidence := fs.String("evidence", "", "evidence file to write")
	known := fs.String("known", "/verif/known_findings.json", "known findings file")
	replays := fs.String("replays", "/verif/replays", "replay directory")
	only := fs.String("func", "", "restrict to functions whose name contains this")
	pkgsFlag := fs.String("pkgs", "", "override package patterns")
	verbose := fs.Bool("v", false, "verbose")
	dumpSMT := fs.String("dumpsmt", "", "write failing queries to this directory")
	noReplay := fs.Bool("noreplay", false, "skip replay")
	dumpAll := fs.String("dumpall", "", "write every query to this directory")
	fs.Parse(args)
	start := time.Now()
	seed := 0
	fmt.Sscanf(os.Getenv("VERIF_SEED"), "%d", &seed)

	patterns := propPackages[*prop]
	if *pkgsFlag != "" {
		patterns = strings.Split(*pkgsFlag, ",")
	}
	if patterns == nil {
		fmt.Fprintln(os.Stderr, "unknown property", *prop)
		return 2
	}
	p, err := loadProgram(*repo, patterns, nil)
	if err != nil {
		fmt.Fprintln(os.Stderr, "load:", err)
		return 2
	}
	if err := p.loadSpecs([]string{*specDir}); err != nil {
		fmt.Fprintln(os.Stderr, "specs:", err)
		return 2
	}
	loadS := time.Since(start).Seconds()

	// select work
	var names []string
	for n, c := range p.contracts {
		if c.Trusted {
			continue
		}
		if contractMentionsProp(c, *prop) && strings.Contains(n, *only) {
			names = append(names, n)
		}
	}
	sort.Strings(names)
	var results []*FuncResult
	var mu sync.Mutex
	parallelDo(len(names), 1, func(i int) {
		r := verifyFunc(p, p.contracts[names[i]])
		mu.Lock()
		results = append(results, r)
		mu.Unlock()
	})
	for _, l := range p.lemmas {
		if hasProp(l.Props, *prop) && strings.Contains("lemma:"+l.Name, *only) {
			results = append(results, verifyLemma(p, l))
		}
	}
	sort.Slice(results, func(i, j int) bool { return results[i].Name < results[j].Name })
	genS := time.Since(start).Seconds() - loadS

	openKnown := map[string]bool{}
	if data, err := os.ReadFile(*known); err == nil {
		var pre []KnownFinding
		json.Unmarshal(data, &pre)
		for _, k := range pre {
			if k.Property == *prop && k.Status == "open" {
				openKnown[k.Obligation] = true
			}
		}
	}
	quickS, fullS := 5, 45
	if *tier == "thorough" {
		quickS, fullS = 10, 120
	}

	type work struct {
		fr *FuncResult
		ob *Obligation
		rep *OblReport
		query string
		res SolveResult
	}
	var works []*work
	engineErrs := 0
	var engineErrTexts []string
	for _, r := range results {
		if r.Err != "" {
			fmt.Fprintln(os.Stderr, "ERROR:", r.Err)
			engineErrTexts = append(engineErrTexts, r.Err)
			engineErrs++
			continue
		}
		for _, ob := range r.Obligations {
			if !hasProp(ob.Props, *prop) {
				continue
			}
			works = append(works, &work{fr: r, ob: ob})
		}
	}
	parallelDo(len(works), 14, func(i int) {
		w := works[i]
		ob := w.ob
		ex := w.fr.Exec
		rep := &OblReport{Name: ob.Name, Kind: ob.Kind}
		if ob.Pos.IsValid() {
			rep.Pos = fmt.Sprintf("%s:%d", relPath(ob.Pos.Filename, *repo), ob.Pos.Line)
		}
		w.rep = rep
		ex.mu.Lock()
		neg := ex.tb.And(ob.PC, ex.tb.Not(ex.tb.SimplifyUnder(ob.PC, ob.Claim)))
		if !neg.IsFalse() {
			neg = ex.tb.And(append(append([]*Term(nil), ex.globalFacts...), neg)...)
		}
		if neg.IsFalse() {
			ex.mu.Unlock()
			rep.Status = "discharged"
			if ob.Kind == "cover" {
				rep.Status = "failed"
			}
			rep.Solver = "simplifier"
			return
		}
		q := ex.tb.Script(smtHeader, []*Term{neg}, nil)
		ex.mu.Unlock()
		w.query = q
		rep.SMTBytes = len(q)
		if *dumpAll != "" {
			os.MkdirAll(*dumpAll, 0o755)
			os.WriteFile(filepath.Join(*dumpAll, sanitize(rep.Name)+".smt2"), []byte(q+"(check-sat)\n"), 0o644)
		}
		var res SolveResult
		if openKnown[rep.Name] {
			// an obligation listed as an open known finding is expected not to be discharged: one
			// short attempt (if it is discharged after all, the finding simply is not hit)
			res = solveQuick(q+"(check-sat)\n", fmt.Sprintf("%d", i), quickS)
		} else if ob.Kind == "cover" {
			// a satisfiability probe: a short attempt is enough (unknown counts as reachable)
			res = solveQuick(q+"(check-sat)\n", fmt.Sprintf("%d", i), quickS)
		} else {
			res = solve(q+"(check-sat)\n", fmt.Sprintf("%d", i), quickS, fullS)
		}
		w.res = res
		rep.Solver = res.Solver
		rep.Seconds = res.Seconds
		rep.Tried = res.Tried
		switch res.Status {
		case "unsat":
			rep.Status = "discharged"
			// thorough tier: every proof is cross-checked by a solver of another family
			// (a disagreement is an engine/solver fault and is reported, never ignored)
			if *tier == "thorough" && ob.Kind != "cover" {
				other := "cvc5"
				if res.Solver == "cvc5" {
					other = "z3-new"
				}
				x := solveWith(q+"(check-sat)\n", fmt.Sprintf("x%d", i), other, 30)
				rep.Tried = append(rep.Tried, fmt.Sprintf("cross-check %s:%s:%.2fs", other, x.Status, x.Seconds))
				switch x.Status {
				case "unsat":
					rep.CrossChecked = true
				case "sat":
					rep.Status = "failed"
					rep.Solver = res.Solver + " vs " + other
					w.res.Status = "disagreement"
					w.res.Raw = "solver disagreement: " + res.Solver + " says unsat, " + other + " says sat\n" + x.Raw
				}
			}
		case "sat":
			rep.Status = "failed"
		default:
			rep.Status = "undecided"
		}
		if ob.Kind == "cover" {
			// reachability: the assumptions must NOT be contradictory
			if res.Status == "unsat" {
				rep.Status = "failed"
			} else {
				rep.Status = "discharged"
			}
		}
	})

	// known findings
	var kfs []KnownFinding
	if data, err := os.ReadFile(*known); err == nil {
		json.Unmarshal(data, &kfs)
	}
	isKnown := func(name string) *KnownFinding {
		for i := range kfs {
			if kfs[i].Property == *prop && kfs[i].Status == "open" && kfs[i].Obligation == name {
				return &kfs[i]
			}
		}
		return nil
	}

	os.MkdirAll(filepath.Join(*replays, *prop), 0o755)
	var reports []*OblReport
	violations := 0
	knownHits := 0
	var knownNames []string
	discharged := 0
	crossChecked := 0
	solverTime := map[string]float64{}
	solverWins := map[string]int{}
	var outLines []string
	for i, w := range works {
		rep := w.rep
		reports = append(reports, rep)
		solverTime[rep.Solver] += rep.Seconds
		if rep.Status == "discharged" {
			discharged++
			solverWins[rep.Solver]++
			if rep.CrossChecked {
				crossChecked++
			}
			continue
		}
		if *dumpSMT != "" {
			os.MkdirAll(*dumpSMT, 0o755)
			os.WriteFile(filepath.Join(*dumpSMT, sanitize(rep.Name)+".smt2"), []byte(w.query+"(check-sat)\n"), 0o644)
		}
		if kf := isKnown(rep.Name); kf != nil {
			rep.Status = "known-finding"
			knownHits++
			knownNames = append(knownNames, rep.Name)
			outLines = append(outLines, fmt.Sprintf("KNOWN-FINDING: property=%s %s (%s)", *prop, kf.What, rep.Name))
			continue
		}
		violations++
		rp := filepath.Join(*replays, *prop, sanitize(rep.Name)+".json")
		rep.Replay = rp
		rr := buildReplay(p, w.fr, w.ob, w.query, w.res, *repo, *noReplay, fmt.Sprintf("%d", i))
		rr.Property = *prop
		rr.Obligation = rep.Name
		rr.Position = rep.Pos
		rr.Tried = rep.Tried
		data, _ := json.MarshalIndent(rr, "", " ")
		os.WriteFile(rp, data, 0o644)
		line := fmt.Sprintf("VIOLATION property=%s replay=%s obligation=%s at=%s", *prop, rp, rep.Name, rep.Pos)
		if rr.Verdict != "reproduced" {
			line += " status=" + rep.Status + " no-failing-input-found"
		} else {
			line += " reproduced: " + rr.Summary
		}
		outLines = append(outLines, line)
	}
	for _, mc := range p.missing {
		if contractMentionsProp(mc, *prop) {
			outLines = append(outLines, fmt.Sprintf("VIOLATION property=%s replay=none obligation=%s/shape:function-exists the function under contract no longer exists (%s:%d) no-failing-input-found", *prop, mc.Name, relPath(mc.File, *repo), mc.Line))
			violations++
		}
	}
	// vacuity guard
	if len(works) == 0 && engineErrs == 0 {
		outLines = append(outLines, fmt.Sprintf("VIOLATION property=%s replay=none zero obligations generated (vacuous check) no-failing-input-found", *prop))
		violations++
	}
	if engineErrs > 0 {
		// a contract that no longer fits its function (a clause names a variable, call site or
		// loop that is gone) decides nothing: reported per function, never silently skipped
		for _, t := range engineErrTexts {
			if len(t) > 300 {
				t = t[:300]
			}
			outLines = append(outLines, fmt.Sprintf("VIOLATION property=%s replay=none obligation=shape:contract-fits-code %s no-failing-input-found", *prop, strings.ReplaceAll(t, "\n", " ")))
		}
		outLines = append(outLines, fmt.Sprintf("VIOLATION property=%s replay=none engine/contract errors: %d (see stderr) no-failing-input-found", *prop, engineErrs))
		violations++
	}
	for _, l := range outLines {
		fmt.Println(l)
	}

	// evidence
	wall := time.Since(start).Seconds()
	notes := map[string]int{}
	var funcs []string
	externs := map[string]bool{}
	abstracted := 0
	for _, r := range results {
		funcs = append(funcs, r.Name)
		for k, v := range r.Notes {
			notes[k] += v
		}
		for _, e := range r.Externs {
			externs[e] = true
		}
		abstracted += r.Abstracted
	}
	var trusted []string
	trusted = append(trusted, "go/ssa (x/tools v0.50.0, NaiveForm) translation of Go source", "SMT solvers z3 5.1.0 / z3 4.8.12 / cvc5 1.0.3", "govc WP generator (/verif/govc)")
	trusted = append(trusted, "A-INT64: int/int64/uint64 arithmetic treated as mathematical integers (narrower types wrap exactly)")
	trusted = append(trusted, "A-APPEND: append() result modelled as a fresh backing array")
	trusted = append(trusted, "A-SLICE0: slice parameters are views starting at offset 0 of their backing object (parameters overlapping in one array at different offsets are not considered)")
	var exts []string
	for e := range externs {
		exts = append(exts, e)
	}
	sort.Strings(exts)
	for _, e := range exts {
		trusted = append(trusted, "assumed contract (extern): "+e)
	}
	for _, ax := range p.axioms {
		trusted = append(trusted, "axiom: "+ax.Label)
	}
	for n, c := range p.contracts {
		if c.Trusted && contractMentionsProp(c, *prop) {
			trusted = append(trusted, "trusted (unverified) in-repo contract: "+n)
		}
	}
	var noteList []string
	for k, v := range notes {
		noteList = append(noteList, fmt.Sprintf("%s (x%d)", k, v))
	}
	sort.Strings(noteList)
	var samples []interface{}
	for i, r := range reports {
		if i%maxInt(1, len(reports)/6) == 0 && len(samples) < 8 {
			samples = append(samples, r)
		}
	}
	ev := map[string]interface{}{
		"property_id": *prop,
		"tier":        *tier,
		"seed":        seed,
		"level":       "proof",
		"wall_s":      wall,
		"violations":  violations,
		"coverage": map[string]interface{}{
			// obligations subject to proof in this run; obligations that fail exactly as a recorded
			// known finding are listed separately below and are not counted as proved
			"obligations":              len(works) - knownHits,
			"discharged":               discharged,
			"obligations_total":        len(works),
			"known_findings_hit":       knownHits,
			"known_finding_obligations": knownNames,
			"cross_checked_by_second_solver": crossChecked,
			"checker_cmd":              "govc check -prop " + *prop + " -tier " + *tier,
			"trusted_base":             trusted,
			"functions_under_contract": funcs,
			"samples":                  samples,
			"solver_wins":              solverWins,
			"solver_cpu_s":             solverTime,
			"load_s":                   loadS,
			"vcgen_s":                  genS,
			"abstracted_instructions":  abstracted,
			"abstraction_notes":        noteList,
			"all_obligations":          reports,
			"spec_files":               relPaths(p.specFiles, *repo),
		},
		"assumptions": trusted,
	}
	// properties decided only through a stated reduct: the evidence level is "other" (as in
	// MANIFEST.json) and says what is and is not covered; the obligation counts stay as measured
	if lv := reductLevels(filepath.Join(filepath.Dir(*specDir), "levels.json"))[*prop]; lv != "" {
		ev["level"] = "other"
		ev["coverage"].(map[string]interface{})["explanation"] = lv
	}
	if *evidence != "" {
		os.MkdirAll(filepath.Dir(*evidence), 0o755)
		data, _ := json.MarshalIndent(ev, "", " ")
		os.WriteFile(*evidence, data, 0o644)
	}
	fmt.Printf("govc: property=%s functions=%d obligations=%d discharged=%d known=%d violations=%d load=%.1fs gen=%.1fs wall=%.1fs\n",
		*prop, len(results), len(works), discharged, knownHits, violations, loadS, genS, wall)
	if *verbose {
		for _, r := range reports {
			fmt.Printf("  %-12s %-8s %6.2fs %s  %s\n", r.Status, r.Solver, r.Seconds, r.Name, r.Pos)
		}
		for _, n := range noteList {
			fmt.Println("  note:", n)
		}
	}
	if violations > 0 {
		return 1
	}
	return 0
}

func maxInt(a, b int) int {
	if a > b {
		return a
	}
	return b
}

func relPath(f, repo string) string {
	if r, err := filepath.Rel(repo, f); err == nil && !strings.HasPrefix(r, "..") {
		return r
	}
	return f
}

func relPaths(fs []string, repo string) []string {
	var out []string
	for _, f := range fs {
		out = append(out, relPath(f, repo))
	}
	return out
}

var _ ssa.Value


// reductLevels reads /verif/levels.json: property id -> explanation of the reduct that is proved
func reductLevels(path string) map[string]string {
	m := map[string]string{}
	if data, err := os.ReadFile(path); err == nil {
		_ = json.Unmarshal(data, &m)
	}
	return m
}
