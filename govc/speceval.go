package main

import (
	"fmt"
	"go/constant"
	"go/token"
	"go/types"
	"math/big"
	"strings"

	"golang.org/x/tools/go/ssa"
)

type Env struct {
	ex        *Exec
	lst       *State // state used for local variables (nil: same as st)
	st        *State
	old       *State
	loopEntry *State
	vars      map[string]*Value
	fr        *Frame
	pos       token.Pos
	pkg       *types.Package
	contract  *FuncContract
	depth     int
	laxLocals bool // a local declared later in the function evaluates to an arbitrary value
	loopIdx   *ssa.Alloc // hidden index of the range loop whose invariant is evaluated ($idx)
}

func (ex *Exec) specEnv(fr *Frame, st *State, pos token.Pos) *Env {
	env := &Env{ex: ex, st: st, old: ex.oldState, vars: map[string]*Value{}, fr: fr, pos: pos}
	if fr != nil && fr.fn.Pkg != nil {
		env.pkg = fr.fn.Pkg.Pkg
	}
	if fr != nil && !fr.inline {
		for k, v := range ex.entryEnv {
			env.vars["$entry."+k] = v
		}
	}
	return env
}

func (env *Env) with(name string, v *Value) *Env {
	n := *env
	n.vars = make(map[string]*Value, len(env.vars)+1)
	for k, x := range env.vars {
		n.vars[k] = x
	}
	n.vars[name] = v
	return &n
}

func (env *Env) inState(st *State) *Env {
	n := *env
	n.st = st
	n.lst = nil
	return &n
}

func (env *Env) localsState() *State {
	if env.lst != nil {
		return env.lst
	}
	return env.st
}

type specError struct{ msg string }

func specFail(f string, a ...interface{}) { panic(specError{fmt.Sprintf(f, a...)}) }

func (ex *Exec) evalSpecBool(env *Env, e Expr) *Term {
	v := ex.evalSpec(env, e)
	if len(v.C) != 1 || v.C[0].Sort != SBool {
		specFail("boolean expected, got %s", v.T)
	}
	return v.C[0]
}

var untypedInt = types.Typ[types.UntypedInt]

func (ex *Exec) specInt(t *Term) *Value { return &Value{T: types.Typ[types.Int], C: []*Term{t}} }

func (ex *Exec) evalSpec(env *Env, e Expr) *Value {
	tb := ex.tb
	switch e := e.(type) {
	case *EInt:
		bi, ok := new(big.Int).SetString(e.Val, 0)
		if !ok {
			specFail("bad integer literal %s", e.Val)
		}
		return &Value{T: untypedInt, C: []*Term{tb.BigInt(bi)}}
	case *EBool:
		return ex.boolV(tb.Bool(e.Val))
	case *EStr:
		return ex.stringLit(e.Val)
	case *ENil:
		return &Value{T: types.Typ[types.UntypedNil], C: []*Term{ex.refLit(0)}}
	case *EIdent:
		return ex.specIdent(env, e.Name)
	case *EUnary:
		x := ex.evalSpec(env, e.X)
		switch e.Op {
		case "!":
			return ex.boolV(tb.Not(x.C[0]))
		case "-":
			if x.C[0].Sort.IsBV() {
				return &Value{T: x.T, C: []*Term{tb.Neg(x.C[0])}}
			}
			return &Value{T: x.T, C: []*Term{tb.Neg(x.C[0])}}
		case "*":
			if _, ok := x.T.Underlying().(*types.Pointer); !ok {
				specFail("deref of non-pointer %s", x.T)
			}
			return ex.loadRaw(env.st, ex.resolve(x))
		}
	case *EBinary:
		return ex.specBinary(env, e)
	case *EField:
		return ex.specField(env, e)
	case *EIndex:
		x := ex.evalSpec(env, e.X)
		i := ex.coerceIdx(ex.evalSpec(env, e.I))
		switch u := x.T.Underlying().(type) {
		case *types.Basic:
			if isStringType(x.T) {
				return ex.intV(tb.Select(x.C[0], ex.add(x.C[1], i)), types.Typ[types.Uint8])
			}
		case *types.Array:
			_ = u
			return ex.elemValue(x, i)
		case *types.Slice:
			et := u.Elem()
			p := ex.sliceElemPtr(x, i, types.NewPointer(et))
			return ex.loadRaw(env.st, ex.resolve(p))
		case *types.Pointer:
			if _, ok := u.Elem().Underlying().(*types.Array); ok {
				arr := ex.loadRaw(env.st, ex.resolve(x))
				return ex.elemValue(arr, i)
			}
		case *types.Map:
			k := ex.evalSpec(env, e.I)
			_, v := ex.mapReadRaw(env.st, x, k)
			return v
		}
		// raw SMT array held in a spec value
		if len(x.C) == 1 && x.C[0].Sort.IsArr() {
			return ex.specInt(tb.Select(x.C[0], i))
		}
		specFail("cannot index %s", x.T)
	case *ESlice:
		x := ex.evalSpec(env, e.X)
		var lo, hi *Term
		if e.Lo != nil {
			lo = ex.coerceIdx(ex.evalSpec(env, e.Lo))
		} else {
			lo = ex.idxLit(0)
		}
		switch x.T.Underlying().(type) {
		case *types.Basic:
			if e.Hi != nil {
				hi = ex.coerceIdx(ex.evalSpec(env, e.Hi))
			} else {
				hi = x.C[2]
			}
			return &Value{T: x.T, C: []*Term{x.C[0], ex.add(x.C[1], lo), ex.sub(hi, lo)}}
		case *types.Slice:
			if e.Hi != nil {
				hi = ex.coerceIdx(ex.evalSpec(env, e.Hi))
			} else {
				hi = x.C[2]
			}
			return &Value{T: x.T, C: []*Term{x.C[0], ex.add(x.C[1], lo), ex.sub(hi, lo), ex.sub(x.C[3], lo)}, P: x.P}
		}
		specFail("cannot slice %s", x.T)
	case *ECall:
		return ex.specCall(env, e)
	case *EQuant:
		var vars []*Term
		inner := env
		for _, n := range e.Vars {
			bv := tb.BVar(fmt.Sprintf("%s_%d", n, env.depth), ex.L.intSort(types.Typ[types.Int]))
			vars = append(vars, bv)
			inner = inner.with(n, ex.specInt(bv))
		}
		inner.depth = env.depth + 1
		body := ex.evalSpecBool(inner, e.Body)
		// re-base: forall k. P(a[off+k]) becomes forall j. P(a[j]) so that the
		// array read itself is the instantiation pattern
		for vi, v := range vars {
			if off := rebaseOffset(body, v); off != nil {
				nv := tb.BVar(v.Name+"_a", v.Sort)
				body = tb.Subst(body, map[*Term]*Term{v: tb.Sub(nv, off)})
				vars[vi] = nv
			}
		}
		if e.All {
			return ex.boolV(tb.Forall(vars, body))
		}
		return ex.boolV(tb.Exists(vars, body))
	}
	specFail("unsupported expression %T", e)
	return nil
}

func (ex *Exec) coerceIdx(v *Value) *Term {
	t := v.C[0]
	if ex.L.bv && !t.Sort.IsBV() && t.ival != nil {
		return ex.tb.BV(t.ival, 64)
	}
	if ex.L.bv && t.Sort.IsBV() && t.Sort.BVWidth() < 64 {
		_, signed := intWidth(v.T)
		if signed {
			return ex.tb.BVSignExt(64-t.Sort.BVWidth(), t)
		}
		return ex.tb.BVZeroExt(64-t.Sort.BVWidth(), t)
	}
	return t
}

// loadRaw: load without adding typing facts to the path condition.
func (ex *Exec) loadRaw(st *State, l loc) *Value {
	pc := st.pc
	v := ex.load(st, l)
	st.pc = pc
	return v
}

func (ex *Exec) mapReadRaw(st *State, m, k *Value) (*Term, *Value) {
	pc := st.pc
	h, v := ex.mapRead(st, m, k)
	st.pc = pc
	return h, v
}

// ---- identifiers ----

func (ex *Exec) specIdent(env *Env, name string) *Value {
	if v, ok := env.vars[name]; ok {
		return v
	}
	if strings.HasPrefix(name, "$idx") && len(name) > 4 && env.fr != nil {
		// $idxK: hidden index of the range loop with ordinal K (after the loop has run to its
		// end it equals the length of the range)
		var k int
		if _, err := fmt.Sscanf(name[4:], "%d", &k); err == nil {
			for _, li := range env.fr.loops {
				if li.ordinal == k {
					if a := rangeIndexAlloc(li); a != nil {
						if cell, ok := env.localsState().locals[a]; ok {
							return cell
						}
					}
				}
			}
		}
		// the loop has not been entered on this path: no element visited
		return &Value{T: types.Typ[types.Int], C: []*Term{ex.idxLit(-1)}}
	}
	if name == "$idx" {
		// index of the last completed iteration of the enclosing range loop (-1 before the first)
		if env.loopIdx == nil {
			specFail("$idx outside a range loop invariant")
		}
		if cell, ok := env.localsState().locals[env.loopIdx]; ok {
			return cell
		}
		specFail("$idx: range index not initialised here")
	}
	// local variable of the function being executed, by scope at env.pos
	if env.fr != nil {
		if v := ex.localByName(env, name); v != nil {
			return v
		}
		if env.laxLocals {
			for _, b := range env.fr.fn.Blocks {
				for _, in := range b.Instrs {
					if a, ok := in.(*ssa.Alloc); ok && a.Comment == name {
						hv, _ := ex.havoc(deref(a.Type()), "undeclared."+name)
						return hv
					}
				}
			}
		}
	}
	if _, ok := ex.prog.ghostDecls[name]; ok {
		return ex.getGhost(env.st, name, nil)
	}
	if c, ok := ex.prog.specConsts[name]; ok {
		e, err := parseExpr(c)
		if err != nil {
			specFail("const %s: %v", name, err)
		}
		return ex.evalSpec(env, e)
	}
	if env.pkg != nil {
		if v := ex.pkgObject(env, env.pkg, name); v != nil {
			return v
		}
	}
	specFail("unknown identifier %s", name)
	return nil
}

func (ex *Exec) localByName(env *Env, name string) *Value {
	fn := env.fr.fn
	obj := ex.prog.lookupLocal(fn, name, env.pos)
	if obj == nil {
		return ex.freeVarByName(env, name)
	}
	a := ex.prog.allocFor(fn, obj)
	if a == nil {
		// parameter never spilled? look at params
		for i, p := range fn.Params {
			if p.Object() == obj {
				return env.fr.params[i]
			}
		}
		// variable of an enclosing function captured by this closure
		return ex.freeVarByName(env, name)
	}
	if cell, ok := env.localsState().locals[a]; ok {
		return cell
	}
	if r, ok := env.fr.regs[a]; ok {
		// escaping alloc modelled as heap object
		return ex.loadRaw(env.st, ex.resolve(r))
	}
	// free variable of an enclosing function (closure): not supported in specs
	return nil
}

func (ex *Exec) freeVarByName(env *Env, name string) *Value {
	fn := env.fr.fn
	for i, fv := range fn.FreeVars {
		if fv.Name() == name && i < len(env.fr.freeVars) {
			cell := env.fr.freeVars[i]
			if _, isPtr := cell.T.Underlying().(*types.Pointer); isPtr {
				return ex.loadRaw(env.localsState(), ex.resolve(cell))
			}
			return cell
		}
	}
	return nil
}

func (ex *Exec) pkgObject(env *Env, pkg *types.Package, name string) *Value {
	obj := pkg.Scope().Lookup(name)
	if obj == nil {
		return nil
	}
	switch o := obj.(type) {
	case *types.Const:
		return ex.constToValue(o.Val(), o.Type())
	case *types.Var:
		g := ex.prog.globalFor(o)
		if g == nil {
			specFail("no SSA global for %s.%s", pkg.Name(), name)
		}
		if v := ex.loadGlobal(env.st, g); v != nil {
			return v
		}
		return ex.loadRaw(env.st, ex.resolve(ex.globalPtr(g)))
	}
	return nil
}

func (ex *Exec) constToValue(cv constant.Value, t types.Type) *Value {
	switch cv.Kind() {
	case constant.Bool:
		return ex.boolV(ex.tb.Bool(constant.BoolVal(cv)))
	case constant.Int:
		bi, ok := constant.Val(cv).(*big.Int)
		if !ok {
			i64, _ := constant.Int64Val(cv)
			bi = big.NewInt(i64)
		}
		if ex.L.bv && isIntType(t) {
			if b, ok := t.Underlying().(*types.Basic); ok && b.Info()&types.IsUntyped == 0 {
				return &Value{T: t, C: []*Term{ex.bigLit(bi, t)}}
			}
		}
		return &Value{T: untypedInt, C: []*Term{ex.tb.BigInt(bi)}}
	case constant.String:
		return ex.stringLit(constant.StringVal(cv))
	case constant.Float:
		f, _ := constant.Float64Val(cv)
		return &Value{T: types.Typ[types.Float64], C: []*Term{ex.fpLit(f)}}
	}
	specFail("unsupported constant kind")
	return nil
}

// ---- fields ----

func (ex *Exec) specField(env *Env, e *EField) *Value {
	// qualified identifier pkg.Name
	if id, ok := e.X.(*EIdent); ok {
		if _, bound := env.vars[id.Name]; !bound {
			if p := ex.prog.importedPkg(env.pkg, id.Name); p != nil {
				if env.fr == nil || ex.prog.lookupLocal(env.fr.fn, id.Name, env.pos) == nil {
					if v := ex.pkgObject(env, p, e.Name); v != nil {
						return v
					}
					specFail("unknown %s.%s", id.Name, e.Name)
				}
			}
		}
	}
	x := ex.evalSpec(env, e.X)
	return ex.fieldOfValue(env, x, e.Name)
}

func (ex *Exec) fieldOfValue(env *Env, x *Value, name string) *Value {
	switch u := x.T.Underlying().(type) {
	case *types.Pointer:
		if _, ok := ex.L.structOf(u.Elem()); ok {
			path, ft := ex.fieldPath(u.Elem(), name)
			if path == nil {
				specFail("type %s has no field %s", u.Elem(), name)
			}
			l := ex.resolve(x)
			for _, f := range path {
				l.path = append(append([]PathElem(nil), l.path...), PathElem{Field: f})
			}
			_ = ft
			return ex.loadRaw(env.st, l)
		}
	}
	if _, ok := ex.L.structOf(x.T); ok {
		path, _ := ex.fieldPath(x.T, name)
		if path == nil {
			specFail("type %s has no field %s", x.T, name)
		}
		v := x
		for _, f := range path {
			v = ex.fieldValue(v, f)
		}
		return v
	}
	// pseudo-fields on interfaces / slices / strings
	switch name {
	case "$tag", "$val", "$ref", "$off", "$len", "$cap", "$arr":
		l := ex.L.Of(x.T)
		for i, c := range l.Comps {
			if c.Path == name {
				if c.Sort == SBool {
					return ex.boolV(x.C[i])
				}
				return &Value{T: types.Typ[types.Int], C: []*Term{x.C[i]}}
			}
		}
	}
	if name == "$ref" {
		// the reference of a pointer, map or channel value
		switch x.T.Underlying().(type) {
		case *types.Pointer, *types.Map, *types.Chan:
			return &Value{T: types.Typ[types.Int], C: []*Term{x.C[0]}}
		}
	}
	specFail("cannot select .%s from %s", name, x.T)
	return nil
}

// fieldPath finds a (possibly promoted) field by name.
func (ex *Exec) fieldPath(t types.Type, name string) ([]int, types.Type) {
	st, ok := ex.L.structOf(t)
	if !ok {
		return nil, nil
	}
	for i := 0; i < st.NumFields(); i++ {
		if st.Field(i).Name() == name {
			return []int{i}, st.Field(i).Type()
		}
	}
	for i := 0; i < st.NumFields(); i++ {
		f := st.Field(i)
		if f.Embedded() {
			ft := f.Type()
			if p, ok := ft.Underlying().(*types.Pointer); ok {
				_ = p
				continue // promoted through pointer: not supported in specs
			}
			if sub, t2 := ex.fieldPath(ft, name); sub != nil {
				return append([]int{i}, sub...), t2
			}
		}
	}
	return nil, nil
}

// ---- binary ----

func (ex *Exec) unifyInts(a, b *Value) (*Term, *Term) {
	x, y := a.C[0], b.C[0]
	if x.Sort == y.Sort {
		return x, y
	}
	if x.Sort.IsBV() && y.ival != nil {
		return x, ex.tb.BV(y.ival, x.Sort.BVWidth())
	}
	if y.Sort.IsBV() && x.ival != nil {
		return ex.tb.BV(x.ival, y.Sort.BVWidth()), y
	}
	if x.Sort.IsBV() && y.Sort.IsBV() {
		wx, wy := x.Sort.BVWidth(), y.Sort.BVWidth()
		_, sx := intWidth(a.T)
		_, sy := intWidth(b.T)
		if wx < wy {
			if sx {
				return ex.tb.BVSignExt(wy-wx, x), y
			}
			return ex.tb.BVZeroExt(wy-wx, x), y
		}
		if sy {
			return x, ex.tb.BVSignExt(wx-wy, y)
		}
		return x, ex.tb.BVZeroExt(wx-wy, y)
	}
	// an ite tree whose leaves are integer literals (a table written as a pred) adapts like a literal
	if x.Sort.IsBV() {
		if t := ex.litTreeToBV(y, x.Sort.BVWidth()); t != nil {
			return x, t
		}
	}
	if y.Sort.IsBV() {
		if t := ex.litTreeToBV(x, y.Sort.BVWidth()); t != nil {
			return t, y
		}
	}
	specFail("cannot combine sorts %s and %s", x.Sort, y.Sort)
	return nil, nil
}

func (ex *Exec) litTreeToBV(t *Term, w int) *Term {
	if t.ival != nil {
		return ex.tb.BV(t.ival, w)
	}
	if t.Op == "ite" && len(t.Args) == 3 {
		a, b := ex.litTreeToBV(t.Args[1], w), ex.litTreeToBV(t.Args[2], w)
		if a != nil && b != nil {
			return ex.tb.Ite(t.Args[0], a, b)
		}
	}
	return nil
}

func (ex *Exec) specBinary(env *Env, e *EBinary) *Value {
	tb := ex.tb
	switch e.Op {
	case "&&":
		return ex.boolV(tb.And(ex.evalSpecBool(env, e.X), ex.evalSpecBool(env, e.Y)))
	case "||":
		return ex.boolV(tb.Or(ex.evalSpecBool(env, e.X), ex.evalSpecBool(env, e.Y)))
	case "==>":
		return ex.boolV(tb.Implies(ex.evalSpecBool(env, e.X), ex.evalSpecBool(env, e.Y)))
	case "<==>":
		return ex.boolV(tb.Eq(ex.evalSpecBool(env, e.X), ex.evalSpecBool(env, e.Y)))
	}
	x := ex.evalSpec(env, e.X)
	y := ex.evalSpec(env, e.Y)
	switch e.Op {
	case "==", "!=":
		var eq *Term
		switch {
		case isNilLit(y):
			eq = tb.Eq(x.C[0], ex.zeroOfSort(x.C[0].Sort))
		case isNilLit(x):
			eq = tb.Eq(y.C[0], ex.zeroOfSort(y.C[0].Sort))
		case isStringType(x.T) && isStringType(y.T):
			eq = ex.strEq(x.C[0], x.C[1], x.C[2], y.C[0], y.C[1], y.C[2])
		case len(x.C) == 1 && len(y.C) == 1 && x.C[0].Sort == SBool:
			eq = tb.Eq(x.C[0], y.C[0])
		case len(x.C) == 1 && len(y.C) == 1 && (x.C[0].Sort == SInt || x.C[0].Sort.IsBV()) && (y.C[0].Sort == SInt || y.C[0].Sort.IsBV()):
			a, b := ex.unifyInts(x, y)
			eq = tb.Eq(a, b)
		case len(x.C) == 1 && len(y.C) == 1 && x.C[0].Sort == y.C[0].Sort && !x.C[0].Sort.IsArr():
			eq = tb.Eq(x.C[0], y.C[0])
		default:
			eq = ex.valuesEqual(env.st, x, y)
		}
		if e.Op == "!=" {
			eq = tb.Not(eq)
		}
		return ex.boolV(eq)
	}
	if isFloatType(x.T) || isFloatType(y.T) {
		return ex.specFloatBinary(e.Op, x, y)
	}
	a, b := ex.unifyInts(x, y)
	rt := x.T
	if rt == untypedInt {
		rt = y.T
	}
	if a.Sort.IsBV() {
		_, signed := intWidth(rt)
		return ex.specBVBinary(e.Op, a, b, rt, signed)
	}
	switch e.Op {
	case "<":
		return ex.boolV(tb.Lt(a, b))
	case "<=":
		return ex.boolV(tb.Le(a, b))
	case ">":
		return ex.boolV(tb.Gt(a, b))
	case ">=":
		return ex.boolV(tb.Ge(a, b))
	case "+":
		return ex.specInt(tb.Add(a, b))
	case "-":
		return ex.specInt(tb.Sub(a, b))
	case "*":
		return ex.specInt(tb.Mul(a, b))
	case "/":
		return ex.specInt(ex.truncDiv(a, b))
	case "%":
		return ex.specInt(tb.Sub(a, tb.Mul(ex.truncDiv(a, b), b)))
	case "&":
		return ex.specInt(ex.bitAnd(a, b, 64, true))
	case "|":
		return ex.specInt(ex.bitOrXor("bor", a, b, 64, true, env.st))
	case "^":
		return ex.specInt(ex.bitOrXor("bxor", a, b, 64, true, env.st))
	case "<<":
		if b.ival != nil {
			return ex.specInt(tb.Mul(a, tb.BigInt(new(big.Int).Lsh(big.NewInt(1), uint(b.ival.Int64())))))
		}
		return ex.specInt(tb.Mul(a, ex.pow2(env.st, b)))
	case ">>":
		if b.ival != nil {
			return ex.specInt(tb.Div(a, tb.BigInt(new(big.Int).Lsh(big.NewInt(1), uint(b.ival.Int64())))))
		}
		return ex.specInt(tb.Div(a, ex.pow2(env.st, b)))
	}
	specFail("unsupported operator %s", e.Op)
	return nil
}

func isNilLit(v *Value) bool {
	b, ok := v.T.(*types.Basic)
	return ok && b.Kind() == types.UntypedNil
}

func (ex *Exec) specFloatBinary(op string, x, y *Value) *Value {
	tb := ex.tb
	toFP := func(v *Value) *Term {
		if v.C[0].Sort == SFP {
			return v.C[0]
		}
		if v.C[0].ival != nil {
			f, _ := new(big.Float).SetInt(v.C[0].ival).Float64()
			return ex.fpLit(f)
		}
		specFail("cannot use %s as float", v.T)
		return nil
	}
	a, b := toFP(x), toFP(y)
	switch op {
	case "<":
		return ex.boolV(tb.Raw("fp.lt", SBool, a, b))
	case "<=":
		return ex.boolV(tb.Raw("fp.leq", SBool, a, b))
	case ">":
		return ex.boolV(tb.Raw("fp.gt", SBool, a, b))
	case ">=":
		return ex.boolV(tb.Raw("fp.geq", SBool, a, b))
	case "+":
		return &Value{T: types.Typ[types.Float64], C: []*Term{tb.Raw("fp.add RNE", SFP, a, b)}}
	case "-":
		return &Value{T: types.Typ[types.Float64], C: []*Term{tb.Raw("fp.sub RNE", SFP, a, b)}}
	case "*":
		return &Value{T: types.Typ[types.Float64], C: []*Term{tb.Raw("fp.mul RNE", SFP, a, b)}}
	case "/":
		return &Value{T: types.Typ[types.Float64], C: []*Term{tb.Raw("fp.div RNE", SFP, a, b)}}
	}
	specFail("unsupported float operator %s", op)
	return nil
}

// ---- calls ----

func (ex *Exec) specCall(env *Env, e *ECall) *Value {
	tb := ex.tb
	arg := func(i int) *Value {
		if i >= len(e.Args) {
			specFail("%s: missing argument %d", e.Fun, i)
		}
		return ex.evalSpec(env, e.Args[i])
	}
	switch e.Fun {
	case "len":
		x := arg(0)
		switch u := x.T.Underlying().(type) {
		case *types.Basic, *types.Slice:
			return ex.specInt(x.C[2])
		case *types.Array:
			return ex.specInt(ex.idxLit(u.Len()))
		case *types.Pointer:
			if a, ok := u.Elem().Underlying().(*types.Array); ok {
				return ex.specInt(ex.idxLit(a.Len()))
			}
		}
		specFail("len of %s", x.T)
	case "cap":
		x := arg(0)
		if _, ok := x.T.Underlying().(*types.Slice); ok {
			return ex.specInt(x.C[3])
		}
		specFail("cap of %s", x.T)
	case "old":
		if env.old == nil {
			specFail("old() without a pre-state")
		}
		// old() switches the heap only; local variables keep their current values
		n := env.inState(env.old.clone())
		n.lst = env.localsState()
		return ex.evalSpec(n, e.Args[0])
	case "entry":
		if env.loopEntry == nil {
			specFail("entry() outside a loop invariant")
		}
		return ex.evalSpec(env.inState(env.loopEntry.clone()), e.Args[0])
	case "ite":
		c := ex.evalSpecBool(env, e.Args[0])
		return ex.iteValue(c, arg(1), arg(2))
	case "same":
		x, y := arg(0), arg(1)
		if len(x.C) != len(y.C) {
			specFail("same(): different shapes %s vs %s", x.T, y.T)
		}
		var cs []*Term
		for i := range x.C {
			cs = append(cs, tb.Eq(x.C[i], y.C[i]))
		}
		return ex.boolV(tb.And(cs...))
	case "int", "int32", "int64", "uint", "uint8", "uint16", "uint32", "uint64", "byte":
		x := arg(0)
		if isFloatType(x.T) {
			return ex.convert(env.st, x, types.Typ[types.Int], nil)
		}
		return &Value{T: types.Typ[types.Int], C: x.C}
	case "u32", "i32", "u8", "u16", "u64", "i64":
		// width conversion (bit-vector mode); identity on mathematical ints
		x := arg(0)
		if !x.C[0].Sort.IsBV() {
			if x.C[0].ival != nil && ex.L.bv {
				w := map[string]int{"u32": 32, "i32": 32, "u8": 8, "u16": 16, "u64": 64, "i64": 64}[e.Fun]
				return &Value{T: bvType(e.Fun), C: []*Term{tb.BV(x.C[0].ival, w)}}
			}
			return &Value{T: types.Typ[types.Int], C: x.C}
		}
		to := bvType(e.Fun)
		return &Value{T: to, C: []*Term{ex.bvResize(x.C[0], x.T, to)}}
	case "wrap8":
		return ex.specInt(tb.Mod(arg(0).C[0], tb.Int(256)))
	case "wrap16":
		return ex.specInt(tb.Mod(arg(0).C[0], tb.Int(65536)))
	case "wrap32":
		return ex.specInt(tb.Mod(arg(0).C[0], tb.BigInt(new(big.Int).Lsh(big.NewInt(1), 32))))
	case "wrap32s":
		h := tb.BigInt(new(big.Int).Lsh(big.NewInt(1), 31))
		return ex.specInt(tb.Sub(tb.Mod(tb.Add(arg(0).C[0], h), tb.BigInt(new(big.Int).Lsh(big.NewInt(1), 32))), h))
	case "div":
		return ex.specInt(tb.Div(arg(0).C[0], arg(1).C[0]))
	case "mod":
		return ex.specInt(tb.Mod(arg(0).C[0], arg(1).C[0]))
	case "min":
		a, b := arg(0).C[0], arg(1).C[0]
		return ex.specInt(tb.Ite(tb.Lt(a, b), a, b))
	case "max":
		a, b := arg(0).C[0], arg(1).C[0]
		return ex.specInt(tb.Ite(tb.Lt(a, b), b, a))
	case "hasPrefix":
		s, p := arg(0), arg(1)
		if p.C[2].ival == nil {
			specFail("hasPrefix needs a literal prefix")
		}
		n := p.C[2].ival.Int64()
		cs := []*Term{ex.le(ex.idxLit(n), s.C[2])}
		for k := int64(0); k < n; k++ {
			kk := ex.idxLit(k)
			cs = append(cs, tb.Eq(tb.Select(s.C[0], ex.add(s.C[1], kk)), tb.Select(p.C[0], ex.add(p.C[1], kk))))
		}
		return ex.boolV(tb.And(cs...))
	case "hasSuffix":
		s, p := arg(0), arg(1)
		if p.C[2].ival == nil {
			specFail("hasSuffix needs a literal suffix")
		}
		n := p.C[2].ival.Int64()
		cs := []*Term{ex.le(ex.idxLit(n), s.C[2])}
		base := ex.sub(ex.add(s.C[1], s.C[2]), ex.idxLit(n))
		for k := int64(0); k < n; k++ {
			kk := ex.idxLit(k)
			cs = append(cs, tb.Eq(tb.Select(s.C[0], ex.add(base, kk)), tb.Select(p.C[0], ex.add(p.C[1], kk))))
		}
		return ex.boolV(tb.And(cs...))
	case "streq":
		x, y := arg(0), arg(1)
		return ex.boolV(ex.strEq(x.C[0], x.C[1], x.C[2], y.C[0], y.C[1], y.C[2]))
	case "substr":
		// substr(r, s): r is a view into s
		r, s := arg(0), arg(1)
		return ex.boolV(tb.And(tb.Eq(r.C[0], s.C[0]), ex.le(s.C[1], r.C[1]), ex.le(ex.add(r.C[1], r.C[2]), ex.add(s.C[1], s.C[2]))))
	case "str":
		// str(b): the string holding the current contents of byte slice b
		b := arg(0)
		return &Value{T: types.Typ[types.String], C: []*Term{ex.backingArrayRaw(env.st, b, 0), b.C[1], b.C[2]}}
	case "iszero":
		x := arg(0)
		return ex.boolV(ex.valuesEqual(env.st, x, ex.zero(x.T)))
	case "as":
		// as(x, "T"): the interface / reference x viewed as a value of pointer type T
		x := arg(0)
		name, ok := e.Args[1].(*EStr)
		if !ok {
			specFail("as needs a literal type name")
		}
		t := ex.prog.lookupType(name.Val, env.pkg)
		if t == nil {
			specFail("as: unknown type %s", name.Val)
		}
		if _, isPtr := t.Underlying().(*types.Pointer); !isPtr {
			specFail("as: %s is not a pointer type", name.Val)
		}
		ref := x.C[0]
		if _, isIface := x.T.Underlying().(*types.Interface); isIface {
			ref = x.C[1]
		}
		return &Value{T: t, C: []*Term{ref}}
	case "haskeyid":
		// haskeyid(m, k): presence of the key with abstract identity k (for quantifying over all keys)
		m := arg(0)
		key, _ := ex.mapRootKey(m)
		pc := env.st.pc
		has := tb.Select(tb.Select(ex.heapMap(env.st, key, 0, ArrOf(SBool)), m.C[0]), arg(1).C[0])
		env.st.pc = pc
		return ex.boolV(tb.And(has, tb.Ne(m.C[0], ex.refLit(0))))
	case "unbox":
		x := arg(0)
		if x.I != nil {
			return x.I
		}
		if len(x.C) != 2 {
			specFail("unbox of non-interface %s", x.T)
		}
		v := ex.unboxTerm(x.C[1])
		if v == nil {
			specFail("unbox: the dynamic value of this interface is not statically known")
		}
		return v
	case "haskey":
		m, k := arg(0), arg(1)
		has, _ := ex.mapReadRaw(env.st, m, k)
		return ex.boolV(tb.And(has, tb.Ne(m.C[0], ex.refLit(0))))
	case "typeis":
		x := arg(0)
		name, ok := e.Args[1].(*EStr)
		if !ok {
			specFail("typeis needs a literal type name")
		}
		t := ex.prog.lookupType(name.Val, env.pkg)
		if t == nil {
			specFail("typeis: unknown type %s", name.Val)
		}
		return ex.boolV(tb.Eq(x.C[0], tb.Int(int64(ex.typeID(typeKey(t))))))
	case "fabs":
		return &Value{T: types.Typ[types.Float64], C: []*Term{tb.Raw("fp.abs", SFP, arg(0).C[0])}}
	case "float":
		x := arg(0)
		if x.C[0].ival != nil {
			f, _ := new(big.Float).SetInt(x.C[0].ival).Float64()
			return &Value{T: types.Typ[types.Float64], C: []*Term{ex.fpLit(f)}}
		}
		return ex.convert(env.st, x, types.Typ[types.Float64], nil)
	case "fplit":
		s, ok := e.Args[0].(*EStr)
		if !ok {
			specFail("fplit needs a string literal")
		}
		f, _, err := big.ParseFloat(s.Val, 10, 200, big.ToNearestEven)
		if err != nil {
			specFail("fplit: %v", err)
		}
		f64, _ := f.Float64()
		return &Value{T: types.Typ[types.Float64], C: []*Term{ex.fpLit(f64)}}
	case "trunc":
		return &Value{T: types.Typ[types.Float64], C: []*Term{tb.Raw("fp.roundToIntegral RTZ", SFP, arg(0).C[0])}}
	case "isIntegral":
		x := arg(0).C[0]
		return ex.boolV(tb.Raw("fp.eq", SBool, x, tb.Raw("fp.roundToIntegral RTZ", SFP, x)))
	case "isNaN":
		return ex.boolV(tb.Raw("fp.isNaN", SBool, arg(0).C[0]))
	}
	// predicate macro
	if p := ex.prog.preds[e.Fun]; p != nil {
		if len(p.Params) != len(e.Args) {
			specFail("%s: expected %d arguments", e.Fun, len(p.Params))
		}
		if env.depth > 40 {
			specFail("predicate expansion too deep at %s", e.Fun)
		}
		inner := &Env{ex: ex, st: env.st, old: env.old, loopEntry: env.loopEntry, vars: map[string]*Value{}, pkg: env.pkg, depth: env.depth + 1}
		if p.Pkg != nil {
			inner.pkg = p.Pkg
		}
		// bound variables of enclosing quantifiers stay visible only through args
		for i, n := range p.Params {
			inner.vars[n] = arg(i)
		}
		return ex.evalSpec(inner, p.Body)
	}
	if uf := ex.prog.ufs[e.Fun]; uf != nil {
		if len(uf.Params) != len(e.Args) {
			specFail("%s: expected %d arguments", e.Fun, len(uf.Params))
		}
		var as []*Term
		var sorts []Sort
		for i := range e.Args {
			v := arg(i)
			if uf.Params[i] == "String" {
				if !isStringType(v.T) {
					specFail("%s: argument %d must be a string", e.Fun, i)
				}
				as = append(as, v.C...)
				for _, t := range v.C {
					sorts = append(sorts, t.Sort)
				}
				continue
			}
			t := v.C[0]
			if t.Sort != uf.Params[i] {
				if uf.Params[i].IsBV() && t.ival != nil {
					t = tb.BV(t.ival, uf.Params[i].BVWidth())
				} else {
					specFail("%s: argument %d has sort %s, want %s", e.Fun, i, t.Sort, uf.Params[i])
				}
			}
			as = append(as, t)
			sorts = append(sorts, t.Sort)
		}
		if uf.Ret == "String" {
			l := ex.L.Of(types.Typ[types.String])
			v := &Value{T: types.Typ[types.String], C: make([]*Term, 3)}
			for k, c := range l.Comps {
				n := fmt.Sprintf("%s$%d", uf.Name, k)
				tb.DeclareUF(n, sorts, c.Sort)
				v.C[k] = tb.App(n, c.Sort, as...)
			}
			return v
		}
		if uf.SMTDef != "" {
			tb.AddDef(uf.Name, uf.SMTDef)
		} else {
			tb.DeclareUF(uf.Name, sorts, uf.Ret)
		}
		r := tb.App(uf.Name, uf.Ret, as...)
		if uf.Ret == SBool {
			return ex.boolV(r)
		}
		return ex.specInt(r)
	}
	// functional extern used as a spec function
	fc := ex.prog.externFor(e.Fun)
	if fc == nil {
		fc = ex.prog.contractByName(e.Fun)
	}
	if c := fc; c != nil && c.Functional && c.Fn != nil {
		var args []*Value
		for i := range e.Args {
			args = append(args, arg(i))
		}
		res := c.Fn.Signature.Results()
		var retT types.Type = res
		if res.Len() == 1 {
			retT = res.At(0).Type()
		}
		resV := ex.functionalResult(c, args, retT)
		// instantiate the function's (proved or assumed) postconditions for these arguments
		closed := true
		for _, a := range args {
			for _, t := range a.C {
				if t.bound {
					closed = false
				}
			}
		}
		if closed && env.depth < 30 {
			inner := &Env{ex: ex, st: env.st, old: env.st, vars: map[string]*Value{}, pkg: c.Pkg, depth: env.depth + 10}
			for i, n := range c.ParamNames {
				if i < len(args) {
					inner.vars[n] = args[i]
				}
			}
			if tt, ok := retT.(*types.Tuple); ok {
				for i := 0; i < tt.Len() && i < len(c.ResultNames); i++ {
					inner.vars[c.ResultNames[i]] = ex.extract(resV, i)
				}
			} else if len(c.ResultNames) > 0 {
				inner.vars[c.ResultNames[0]] = resV
			}
			for _, en := range c.Ensures {
				fact := ex.evalSpecBool(inner, en.Expr)
				env.st.pc = tb.And(env.st.pc, fact)
			}
		}
		return resV
	}
	if e.Fun == "proj" {
		t := arg(0)
		idx, ok := e.Args[1].(*EInt)
		if !ok {
			specFail("proj needs a literal index")
		}
		var k int
		fmt.Sscanf(idx.Val, "%d", &k)
		return ex.extract(t, k)
	}
	specFail("unknown spec function %s", e.Fun)
	return nil
}

func (ex *Exec) backingArrayRaw(st *State, s *Value, comp int) *Term {
	pc := st.pc
	t := ex.backingArray(st, s, comp)
	st.pc = pc
	return t
}

func (ex *Exec) specBVBinary(op string, a, b *Term, rt types.Type, signed bool) *Value {
	tb := ex.tb
	cmp := func(s, u string) *Value {
		if signed {
			return ex.boolV(tb.BVCmp(s, a, b))
		}
		return ex.boolV(tb.BVCmp(u, a, b))
	}
	switch op {
	case "<":
		return cmp("bvslt", "bvult")
	case "<=":
		return cmp("bvsle", "bvule")
	case ">":
		return cmp("bvsgt", "bvugt")
	case ">=":
		return cmp("bvsge", "bvuge")
	case "+":
		return &Value{T: rt, C: []*Term{tb.Add(a, b)}}
	case "-":
		return &Value{T: rt, C: []*Term{tb.Sub(a, b)}}
	case "*":
		return &Value{T: rt, C: []*Term{tb.Mul(a, b)}}
	case "&":
		return &Value{T: rt, C: []*Term{tb.BVOp("bvand", a, b)}}
	case "|":
		return &Value{T: rt, C: []*Term{tb.BVOp("bvor", a, b)}}
	case "^":
		return &Value{T: rt, C: []*Term{tb.BVOp("bvxor", a, b)}}
	case "<<":
		return &Value{T: rt, C: []*Term{tb.BVOp("bvshl", a, b)}}
	case ">>":
		if signed {
			return &Value{T: rt, C: []*Term{tb.BVOp("bvashr", a, b)}}
		}
		return &Value{T: rt, C: []*Term{tb.BVOp("bvlshr", a, b)}}
	case "/":
		if signed {
			return &Value{T: rt, C: []*Term{tb.BVOp("bvsdiv", a, b)}}
		}
		return &Value{T: rt, C: []*Term{tb.BVOp("bvudiv", a, b)}}
	case "%":
		if signed {
			return &Value{T: rt, C: []*Term{tb.BVOp("bvsrem", a, b)}}
		}
		return &Value{T: rt, C: []*Term{tb.BVOp("bvurem", a, b)}}
	}
	specFail("unsupported bv operator %s", op)
	return nil
}

var _ = strings.TrimSpace
var _ ssa.Value

func (ex *Exec) unboxTerm(t *Term) *Value {
	if v, ok := ex.boxes[t.id]; ok {
		return v
	}
	if t.Op == "ite" {
		a, b := ex.unboxTerm(t.Args[1]), ex.unboxTerm(t.Args[2])
		if a != nil && b != nil && len(a.C) == len(b.C) {
			return ex.iteValue(t.Args[0], a, b)
		}
	}
	return nil
}

func bvType(name string) types.Type {
	switch name {
	case "u8":
		return types.Typ[types.Uint8]
	case "u16":
		return types.Typ[types.Uint16]
	case "u32":
		return types.Typ[types.Uint32]
	case "i32":
		return types.Typ[types.Int32]
	case "u64":
		return types.Typ[types.Uint64]
	}
	return types.Typ[types.Int64]
}

// rebaseOffset finds X when every array read indexed through bound variable v
// has the index form (+ X v) with one common, closed, non-literal X.
func rebaseOffset(body, v *Term) *Term {
	var off *Term
	ok := true
	seen := map[int]bool{}
	var walk func(t *Term)
	walk = func(t *Term) {
		if seen[t.id] || !ok {
			return
		}
		seen[t.id] = true
		if t.Op == "select" {
			idx := t.Args[1]
			if mentions(idx, v) {
				if idx.Op == "+" && len(idx.Args) == 2 && idx.Args[1] == v && !idx.Args[0].bound {
					if off == nil {
						off = idx.Args[0]
					} else if off != idx.Args[0] {
						ok = false
					}
				} else if idx.Op == "+" && len(idx.Args) == 2 && idx.Args[0] == v && !idx.Args[1].bound && idx.Args[1].ival == nil {
					if off == nil {
						off = idx.Args[1]
					} else if off != idx.Args[1] {
						ok = false
					}
				} else if idx == v {
					ok = false // already absolute somewhere: leave alone
				} else if idx.Op == "+" || idx.Op == "-" || idx.Op == "*" {
					ok = false // some other arithmetic form of the index
				}
				// otherwise (e.g. an index that is itself an array read): decided by the inner reads
			}
		}
		for _, a := range t.Args {
			walk(a)
		}
	}
	walk(body)
	if !ok || off == nil || off.ival != nil {
		return nil
	}
	return off
}

func mentions(t, v *Term) bool {
	for _, f := range t.fv {
		if f == v {
			return true
		}
	}
	return false
}
