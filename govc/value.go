package main

// Symbolic values: every Go type maps to a fixed list of SMT components.
// Pointers into the interior of an object and slices over embedded arrays carry
// a static path (PtrInfo) beside their component terms.

import (
	"fmt"
	"go/types"
	"math/big"
	"strings"
	"sync"

	"golang.org/x/tools/go/ssa"
)

type compKind int

const (
	kInt compKind = iota
	kBool
	kFloat
	kStrArr
	kStrOff
	kStrLen
	kRef // pointer / map / chan / func identity
	kSliceRef
	kSliceOff
	kSliceLen
	kSliceCap
	kIfaceTag
	kIfaceVal
)

type CompInfo struct {
	Path string // dotted field path inside the type ("" for scalars)
	Sort Sort   // includes array lifting
	Leaf Sort   // sort without lifting
	Lift int    // number of enclosing fixed-size array levels
	Kind compKind
	GoT  types.Type // Go type of the leaf (for range facts)
}

type Layout struct {
	T     types.Type
	Comps []CompInfo
}

type PathElem struct {
	Field   int
	Index   *Term
	IsIndex bool
}

type PtrInfo struct {
	Local *ssa.Alloc // base is a local cell; otherwise heap object with ref C[0]
	Root  types.Type // type of the base object
	Path  []PathElem
}

type FuncInfo struct {
	Fn       *ssa.Function
	Bindings []*Value
	Builtin  string
}

type Value struct {
	T types.Type
	C []*Term
	P *PtrInfo  // pointers / slices with static interior path or local base
	F *FuncInfo // statically known function value
	I *Value    // interface holding a statically known concrete value
	X *Term     // integer obtained by truncating a float: its exact float value
}

// ---- layout ----

type Layouts struct {
	tb       *TB
	cache    map[string]*Layout
	abstract map[string]*types.Struct // named type -> abstract model struct
	bv       bool                     // bit-vector mode
}

var rootClassReg = map[string]int{}
var rootClassMu sync.Mutex

func typeKey(t types.Type) string {
	k := types.TypeString(t, func(p *types.Package) string { return p.Path() })
	// register the heap class of objects with this root type
	cls := clsData
	switch tt := t.(type) {
	case *types.Named:
		if _, isStruct := tt.Underlying().(*types.Struct); isStruct {
			if tt.Obj().Pkg() != nil && strings.HasPrefix(tt.Obj().Pkg().Path(), repoModPath) {
				cls = clsRepo
			} else {
				cls = clsForeign
			}
		}
	}
	rootClassMu.Lock()
	rootClassReg[k] = cls
	rootClassMu.Unlock()
	return k
}

func (L *Layouts) intSort(t types.Type) Sort {
	if !L.bv {
		return SInt
	}
	w, _ := intWidth(t)
	return BVSort(w)
}

// intWidth returns the bit width and signedness of an integer-like basic type.
func intWidth(t types.Type) (int, bool) {
	b, ok := t.Underlying().(*types.Basic)
	if !ok {
		return 64, true
	}
	switch b.Kind() {
	case types.Int8:
		return 8, true
	case types.Int16:
		return 16, true
	case types.Int32, types.UntypedRune:
		return 32, true
	case types.Int, types.Int64, types.UntypedInt:
		return 64, true
	case types.Uint8:
		return 8, false
	case types.Uint16:
		return 16, false
	case types.Uint32:
		return 32, false
	case types.Uint, types.Uint64, types.Uintptr:
		return 64, false
	}
	return 64, true
}

func isIntType(t types.Type) bool {
	b, ok := t.Underlying().(*types.Basic)
	return ok && b.Info()&types.IsInteger != 0
}
func isBoolType(t types.Type) bool {
	b, ok := t.Underlying().(*types.Basic)
	return ok && b.Info()&types.IsBoolean != 0
}
func isStringType(t types.Type) bool {
	b, ok := t.Underlying().(*types.Basic)
	return ok && b.Info()&types.IsString != 0
}
func isFloatType(t types.Type) bool {
	b, ok := t.Underlying().(*types.Basic)
	return ok && b.Info()&types.IsFloat != 0
}

func (L *Layouts) structOf(t types.Type) (*types.Struct, bool) {
	if n, ok := t.(*types.Named); ok {
		if a, ok := L.abstract[typeKey(n)]; ok {
			return a, true
		}
	}
	if a, ok := t.(*types.Alias); ok {
		return L.structOf(types.Unalias(a))
	}
	s, ok := t.Underlying().(*types.Struct)
	return s, ok
}

func (L *Layouts) Of(t types.Type) *Layout {
	k := typeKey(t)
	if l, ok := L.cache[k]; ok {
		return l
	}
	l := &Layout{T: t}
	L.cache[k] = l // guards recursion through pointers (pointers do not recurse)
	l.Comps = L.build(t)
	return l
}

func (L *Layouts) build(t types.Type) []CompInfo {
	refSort := SInt
	lenSort := L.intSort(types.Typ[types.Int])
	if L.bv {
		refSort = BVSort(64)
	}
	if st, ok := L.structOf(t); ok {
		var out []CompInfo
		for i := 0; i < st.NumFields(); i++ {
			f := st.Field(i)
			for _, c := range L.Of(f.Type()).Comps {
				p := f.Name()
				if p == "_" {
					p = fmt.Sprintf("_%d", i)
				}
				if c.Path != "" {
					p += "." + c.Path
				}
				c.Path = p
				out = append(out, c)
			}
		}
		return out
	}
	switch u := t.Underlying().(type) {
	case *types.Basic:
		switch {
		case u.Info()&types.IsBoolean != 0:
			return []CompInfo{{Sort: SBool, Leaf: SBool, Kind: kBool, GoT: t}}
		case u.Info()&types.IsInteger != 0:
			s := L.intSort(t)
			return []CompInfo{{Sort: s, Leaf: s, Kind: kInt, GoT: t}}
		case u.Info()&types.IsFloat != 0:
			return []CompInfo{{Sort: SFP, Leaf: SFP, Kind: kFloat, GoT: t}}
		case u.Info()&types.IsString != 0:
			as := ArrOf(L.intSort(types.Typ[types.Uint8]))
			if L.bv {
				as = Sort("(Array (_ BitVec 64) (_ BitVec 8))")
			}
			return []CompInfo{
				{Path: "$arr", Sort: as, Leaf: as, Kind: kStrArr, GoT: t},
				{Path: "$off", Sort: lenSort, Leaf: lenSort, Kind: kStrOff, GoT: types.Typ[types.Int]},
				{Path: "$len", Sort: lenSort, Leaf: lenSort, Kind: kStrLen, GoT: types.Typ[types.Int]},
			}
		case u.Kind() == types.UnsafePointer, u.Kind() == types.UntypedNil:
			return []CompInfo{{Sort: refSort, Leaf: refSort, Kind: kRef, GoT: t}}
		}
		// complex etc: opaque
		return []CompInfo{{Sort: SInt, Leaf: SInt, Kind: kRef, GoT: t}}
	case *types.Pointer, *types.Map, *types.Chan, *types.Signature:
		return []CompInfo{{Sort: refSort, Leaf: refSort, Kind: kRef, GoT: t}}
	case *types.Slice:
		return []CompInfo{
			{Path: "$ref", Sort: refSort, Leaf: refSort, Kind: kSliceRef, GoT: t},
			{Path: "$off", Sort: lenSort, Leaf: lenSort, Kind: kSliceOff, GoT: types.Typ[types.Int]},
			{Path: "$len", Sort: lenSort, Leaf: lenSort, Kind: kSliceLen, GoT: types.Typ[types.Int]},
			{Path: "$cap", Sort: lenSort, Leaf: lenSort, Kind: kSliceCap, GoT: types.Typ[types.Int]},
		}
	case *types.Interface:
		return []CompInfo{
			{Path: "$tag", Sort: SInt, Leaf: SInt, Kind: kIfaceTag, GoT: t},
			{Path: "$val", Sort: refSort, Leaf: refSort, Kind: kIfaceVal, GoT: t},
		}
	case *types.Array:
		var out []CompInfo
		for _, c := range L.Of(u.Elem()).Comps {
			c.Path = "[]" + c.Path
			c.Sort = L.liftSort(c.Sort)
			c.Lift++
			out = append(out, c)
		}
		return out
	case *types.Tuple:
		var out []CompInfo
		for i := 0; i < u.Len(); i++ {
			for _, c := range L.Of(u.At(i).Type()).Comps {
				c.Path = fmt.Sprintf("#%d.%s", i, c.Path)
				out = append(out, c)
			}
		}
		return out
	case *types.TypeParam:
		return []CompInfo{{Sort: SInt, Leaf: SInt, Kind: kRef, GoT: t}}
	}
	panic("layout: unsupported type " + t.String())
}

func (L *Layouts) liftSort(s Sort) Sort {
	if L.bv {
		return Sort("(Array (_ BitVec 64) " + string(s) + ")")
	}
	return ArrOf(s)
}

// backing layout of a slice: its element components lifted once.
func (L *Layouts) Backing(elem types.Type) []CompInfo {
	var out []CompInfo
	for _, c := range L.Of(elem).Comps {
		c.Path = "[]" + c.Path
		c.Sort = L.liftSort(c.Sort)
		c.Lift++
		out = append(out, c)
	}
	return out
}

// rootComps returns the component list of a heap root type: for slice types the
// root is the (unbounded) backing array.
func (L *Layouts) rootComps(root types.Type) []CompInfo {
	return L.Of(root).Comps
}

// fieldRange returns the component range [lo,hi) of field i inside struct type t.
func (L *Layouts) fieldRange(t types.Type, i int) (int, int, types.Type) {
	st, ok := L.structOf(t)
	if !ok {
		panic("fieldRange of non-struct " + t.String())
	}
	lo := 0
	for j := 0; j < i; j++ {
		lo += len(L.Of(st.Field(j).Type()).Comps)
	}
	ft := st.Field(i).Type()
	return lo, lo + len(L.Of(ft).Comps), ft
}

func (L *Layouts) fieldByName(t types.Type, name string) (int, bool) {
	st, ok := L.structOf(t)
	if !ok {
		return 0, false
	}
	for i := 0; i < st.NumFields(); i++ {
		if st.Field(i).Name() == name {
			return i, true
		}
	}
	return 0, false
}

// ---- value helpers ----

func (ex *Exec) zero(t types.Type) *Value {
	l := ex.L.Of(t)
	v := &Value{T: t, C: make([]*Term, len(l.Comps))}
	for i, c := range l.Comps {
		v.C[i] = ex.zeroOfSort(c.Sort)
	}
	return v
}

func (ex *Exec) zeroOfSort(s Sort) *Term {
	tb := ex.tb
	switch {
	case s == SInt:
		return tb.Int(0)
	case s == SBool:
		return tb.False
	case s == SFP:
		return tb.RawLit("(_ +zero 11 53)", SFP)
	case s.IsBV():
		return tb.BV(big.NewInt(0), s.BVWidth())
	case strings.HasPrefix(string(s), "(Array "):
		// (Array IDX ELEM)
		elem := arrElemSort(s)
		return tb.ConstArr(s, ex.zeroOfSort(elem))
	}
	panic("zeroOfSort " + string(s))
}

func arrElemSort(s Sort) Sort {
	str := string(s)
	// strip "(Array " then the index sort, which is either Int or (_ BitVec n)
	rest := strings.TrimPrefix(str, "(Array ")
	if strings.HasPrefix(rest, "Int ") {
		rest = strings.TrimPrefix(rest, "Int ")
	} else if strings.HasPrefix(rest, "(_ BitVec ") {
		i := strings.Index(rest, ")")
		rest = rest[i+2:]
	}
	return Sort(strings.TrimSuffix(rest, ")"))
}

// havoc creates an unconstrained value of type t and returns the typing facts
// (ranges, non-negativity of lengths) that hold for every Go value of the type.
func (ex *Exec) havoc(t types.Type, prefix string) (*Value, *Term) {
	l := ex.L.Of(t)
	v := &Value{T: t, C: make([]*Term, len(l.Comps))}
	var facts []*Term
	for i, c := range l.Comps {
		v.C[i] = ex.tb.Fresh(prefix+"."+c.Path, c.Sort)
	}
	facts = append(facts, ex.typeFacts(v))
	return v, ex.tb.And(facts...)
}

// typeFacts: facts true of any well-typed Go value with these components.
func (ex *Exec) typeFacts(v *Value) *Term {
	tb := ex.tb
	l := ex.L.Of(v.T)
	var facts []*Term
	for i, c := range l.Comps {
		if c.Lift > 0 {
			continue
		}
		t := v.C[i]
		switch c.Kind {
		case kInt:
			facts = append(facts, ex.intRange(t, c.GoT))
		case kStrOff, kSliceOff:
			facts = append(facts, ex.geZero(t))
		case kStrLen:
			facts = append(facts, ex.geZero(t))
			if t.Sort.IsBV() {
				// lengths are bounded by memory: keeps length arithmetic from wrapping
				facts = append(facts, ex.tb.BVCmp("bvsle", t, ex.tb.BV(new(big.Int).Lsh(big.NewInt(1), 40), t.Sort.BVWidth())))
			}
		case kSliceLen:
			facts = append(facts, ex.geZero(t), ex.le(t, v.C[i+1]))
			if t.Sort.IsBV() {
				facts = append(facts, ex.tb.BVCmp("bvsle", v.C[i+1], ex.tb.BV(new(big.Int).Lsh(big.NewInt(1), 40), t.Sort.BVWidth())))
			}
		case kRef, kSliceRef:
			facts = append(facts, ex.geZero(t))
		case kIfaceTag:
			facts = append(facts, tb.Ge(t, tb.Int(0)))
		}
		if c.Kind == kSliceRef {
			// nil slice has zero length and capacity
			facts = append(facts, tb.Implies(tb.Eq(t, ex.zeroOfSort(c.Sort)), tb.And(tb.Eq(v.C[i+2], ex.zeroOfSort(l.Comps[i+2].Sort)), tb.Eq(v.C[i+3], ex.zeroOfSort(l.Comps[i+3].Sort)))))
		}
	}
	return tb.And(facts...)
}

func (ex *Exec) geZero(t *Term) *Term {
	if t.Sort.IsBV() {
		return ex.tb.BVCmp("bvsge", t, ex.tb.BV(big.NewInt(0), t.Sort.BVWidth()))
	}
	return ex.tb.Ge(t, ex.tb.Int(0))
}
func (ex *Exec) le(a, b *Term) *Term {
	if a.Sort.IsBV() {
		return ex.tb.BVCmp("bvsle", a, b)
	}
	return ex.tb.Le(a, b)
}

func (ex *Exec) intRange(t *Term, gt types.Type) *Term {
	if t.Sort.IsBV() {
		return ex.tb.True
	}
	w, signed := intWidth(gt)
	lo, hi := intBounds(w, signed)
	if t.ival != nil {
		return ex.tb.Bool(t.ival.Cmp(lo) >= 0 && t.ival.Cmp(hi) <= 0)
	}
	return ex.tb.And(ex.tb.Le(ex.tb.BigInt(lo), t), ex.tb.Le(t, ex.tb.BigInt(hi)))
}

func intBounds(w int, signed bool) (*big.Int, *big.Int) {
	one := big.NewInt(1)
	if signed {
		hi := new(big.Int).Lsh(one, uint(w-1))
		lo := new(big.Int).Neg(hi)
		return lo, hi.Sub(hi, one)
	}
	hi := new(big.Int).Lsh(one, uint(w))
	return big.NewInt(0), hi.Sub(hi, one)
}

func (ex *Exec) iteValue(c *Term, a, b *Value) *Value {
	if a == b {
		return a
	}
	if len(a.C) != len(b.C) {
		panic(fmt.Sprintf("iteValue: component mismatch %s vs %s", a.T, b.T))
	}
	v := &Value{T: a.T, C: make([]*Term, len(a.C))}
	for i := range a.C {
		v.C[i] = ex.tb.Ite(c, a.C[i], b.C[i])
	}
	// static side info survives only if identical in shape
	switch {
	case a.P != nil && b.P != nil && samePtrShape(a.P, b.P):
		p := &PtrInfo{Local: a.P.Local, Root: a.P.Root, Path: make([]PathElem, len(a.P.Path))}
		for i := range a.P.Path {
			p.Path[i] = a.P.Path[i]
			if a.P.Path[i].IsIndex {
				p.Path[i].Index = ex.tb.Ite(c, a.P.Path[i].Index, b.P.Path[i].Index)
			}
		}
		v.P = p
	case a.P != nil || b.P != nil:
		// shapes differ: keep the one whose branch is syntactically live, else mark unknown
		if a.P != nil && b.P == nil && isNilRefValue(b) {
			v.P = a.P
		} else if b.P != nil && a.P == nil && isNilRefValue(a) {
			v.P = b.P
		} else {
			ex.note("pointer-shape-mismatch at merge")
		}
	}
	if a.F != nil && b.F != nil && a.F.Fn == b.F.Fn && a.F.Builtin == b.F.Builtin && len(a.F.Bindings) == len(b.F.Bindings) {
		f := &FuncInfo{Fn: a.F.Fn, Builtin: a.F.Builtin}
		for i := range a.F.Bindings {
			f.Bindings = append(f.Bindings, ex.iteValue(c, a.F.Bindings[i], b.F.Bindings[i]))
		}
		v.F = f
	}
	if a.I != nil && b.I != nil && types.Identical(a.I.T, b.I.T) {
		v.I = ex.iteValue(c, a.I, b.I)
	}
	if a.X != nil && b.X != nil {
		v.X = ex.tb.Ite(c, a.X, b.X)
	}
	return v
}

func isNilRefValue(v *Value) bool {
	return len(v.C) > 0 && v.C[0].ival != nil && v.C[0].ival.Sign() == 0
}

func samePtrShape(a, b *PtrInfo) bool {
	if a.Local != b.Local || len(a.Path) != len(b.Path) {
		return false
	}
	if (a.Root == nil) != (b.Root == nil) || (a.Root != nil && !types.Identical(a.Root, b.Root)) {
		return false
	}
	for i := range a.Path {
		if a.Path[i].IsIndex != b.Path[i].IsIndex || (!a.Path[i].IsIndex && a.Path[i].Field != b.Path[i].Field) {
			return false
		}
	}
	return true
}

// sub-value extraction on struct values
func (ex *Exec) fieldValue(v *Value, i int) *Value {
	lo, hi, ft := ex.L.fieldRange(v.T, i)
	return &Value{T: ft, C: v.C[lo:hi:hi]}
}

func (ex *Exec) withField(v *Value, i int, fv *Value) *Value {
	lo, hi, _ := ex.L.fieldRange(v.T, i)
	nv := &Value{T: v.T, C: append([]*Term(nil), v.C...)}
	copy(nv.C[lo:hi], fv.C)
	return nv
}

// element of an array value
func (ex *Exec) elemValue(v *Value, idx *Term) *Value {
	at := v.T.Underlying().(*types.Array)
	ev := &Value{T: at.Elem(), C: make([]*Term, len(v.C))}
	for i := range v.C {
		ev.C[i] = ex.tb.Select(v.C[i], idx)
	}
	return ev
}

func (ex *Exec) withElem(v *Value, idx *Term, e *Value) *Value {
	nv := &Value{T: v.T, C: make([]*Term, len(v.C))}
	for i := range v.C {
		nv.C[i] = ex.tb.Store(v.C[i], idx, e.C[i])
	}
	return nv
}

// ---- strings ----

func (ex *Exec) strParts(v *Value) (arr, off, ln *Term) { return v.C[0], v.C[1], v.C[2] }

func (ex *Exec) mkString(arr, off, ln *Term) *Value {
	return &Value{T: types.Typ[types.String], C: []*Term{arr, off, ln}}
}

func (ex *Exec) stringLit(s string) *Value {
	tb := ex.tb
	byteSort := ex.L.intSort(types.Typ[types.Uint8])
	arrSort := ex.L.Of(types.Typ[types.String]).Comps[0].Sort
	arr := tb.ConstArr(arrSort, ex.zeroOfSort(byteSort))
	for i := 0; i < len(s); i++ {
		arr = tb.Store(arr, ex.idxLit(int64(i)), ex.intLit(int64(s[i]), types.Typ[types.Uint8]))
	}
	return ex.mkString(arr, ex.idxLit(0), ex.idxLit(int64(len(s))))
}

// idxLit: literal of the index/length sort.
func (ex *Exec) idxLit(v int64) *Term { return ex.intLit(v, types.Typ[types.Int]) }

func (ex *Exec) intLit(v int64, t types.Type) *Term {
	if ex.L.bv {
		w, _ := intWidth(t)
		return ex.tb.BV(big.NewInt(v), w)
	}
	return ex.tb.Int(v)
}

func (ex *Exec) bigLit(v *big.Int, t types.Type) *Term {
	if ex.L.bv {
		w, _ := intWidth(t)
		return ex.tb.BV(v, w)
	}
	return ex.tb.BigInt(v)
}
