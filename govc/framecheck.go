package main

// Frame obligations: a `modifies` clause on a function with a body is proved, not
// assumed.  At every return, each heap map that differs from its entry value must
// agree with it at every object that existed at entry and is not named by the clause:
//
//	frame:<root|comp>   forall r (skolem) :: r allocated at entry && r not a target
//	                     ==> final[r] == entry[r]
//
// and no heap class outside the clause may have been forgotten wholesale (by calling
// something whose own frame says so).

import (
	"fmt"
	"go/types"
	"sort"
	"strings"
)

type frameTarget struct {
	rootKey string
	lo, hi  int
	ref     *Term
}

func sameDflt(a, b []lazyDflt) bool {
	if len(a) != len(b) {
		return false
	}
	for i := range a {
		if a[i].epoch != b[i].epoch || a[i].cond != b[i].cond {
			return false
		}
	}
	return true
}

func (ex *Exec) frameObligations(c *FuncContract, fr *Frame, entry *State) {
	if c.Modifies == nil || c.Trusted || ex.discover != nil || ex.allocBase == nil {
		return
	}
	tb := ex.tb
	allowedCls := map[int]bool{}
	type typeAllow struct {
		key   string
		field string
		t     types.Type
	}
	var types_ []typeAllow
	var exprs []ModTarget
	for _, m := range c.Modifies {
		switch m.Kind {
		case "all":
			return
		case "foreign":
			allowedCls[clsForeign] = true
		case "data":
			allowedCls[clsData] = true
			allowedCls[clsMap] = true
		case "maps":
			allowedCls[clsMap] = true
		case "type":
			if t := ex.prog.lookupType(m.Name, c.Pkg); t != nil {
				types_ = append(types_, typeAllow{typeKey(t), m.Field, t})
			}
		case "expr":
			exprs = append(exprs, m)
		}
	}
	base0 := tb.Const("allocBase", SInt)
	clsName := []string{"repo", "foreign", "data", "map"}
	for _, r := range fr.rets {
		// targets, evaluated over the entry values of the parameters
		env := &Env{ex: ex, st: entry, old: entry, vars: map[string]*Value{}, pkg: c.Pkg, contract: c}
		for k, v := range ex.entryEnv {
			env.vars[k] = v
		}
		var targets []frameTarget
		for _, m := range exprs {
			target := m.Expr
			if u, ok := target.(*EUnary); ok && u.Op == "*" {
				target = u.X
			}
			v := ex.evalSpec(env, target)
			if v.I != nil {
				v = v.I
			}
			switch v.T.Underlying().(type) {
			case *types.Pointer:
				l := ex.resolve(v)
				if l.local != nil {
					continue
				}
				lo, hi, _, _ := ex.walk(l.root, l.path)
				targets = append(targets, frameTarget{typeKey(l.root), lo, hi, l.ref})
			case *types.Slice:
				if v.P != nil && v.P.Local == nil {
					path := v.P.Path
					if len(path) > 0 && path[len(path)-1].IsIndex {
						path = path[:len(path)-1]
					}
					lo, hi, _, _ := ex.walk(v.P.Root, path)
					targets = append(targets, frameTarget{typeKey(v.P.Root), lo, hi, v.C[0]})
				} else if v.P == nil {
					root := sliceRootType(v.T)
					targets = append(targets, frameTarget{typeKey(root), 0, len(ex.L.rootComps(root)), v.C[0]})
				}
			case *types.Map:
				key, mt := ex.mapRootKey(v)
				targets = append(targets, frameTarget{key, 0, len(ex.L.Of(mt.Elem()).Comps) + 1, v.C[0]})
			}
		}
		for cls := 0; cls < nClasses; cls++ {
			if allowedCls[cls] || sameDflt(r.st.dflt[cls], entry.dflt[cls]) {
				continue
			}
			saved := r.st.pc
			ex.oblige(r.st, "frame", "class-"+clsName[cls], tb.False, nil, "the function (or something it calls) may write any "+clsName[cls]+" object, which its modifies clause does not allow")
			r.st.pc = saved
		}
		keys := map[string]bool{}
		for k := range r.st.heap {
			keys[k] = true
		}
		var ks []string
		for k := range keys {
			ks = append(ks, k)
		}
		sort.Strings(ks)
		// one obligation per root type: all its written components, one skolem object
		type grp struct {
			sk    *Term
			conds []*Term
		}
		groups := map[string]*grp{}
		var order []string
		for _, k := range ks {
			cls := heapClass(k)
			if allowedCls[cls] || !sameDflt(r.st.dflt[cls], entry.dflt[cls]) {
				continue
			}
			if _, ok := ex.heapSorts[k]; !ok {
				continue
			}
			hf := r.st.heap[k]
			h0 := ex.heapByKey(entry, k)
			if hf == h0 {
				continue
			}
			bar := strings.LastIndex(k, "|")
			rootKey := k[:bar]
			var comp int
			fmt.Sscanf(k[bar+1:], "%d", &comp)
			allowed := false
			for _, ta := range types_ {
				if ta.key != rootKey {
					continue
				}
				comps := ex.L.rootComps(ta.t)
				if comp < len(comps) {
					p := comps[comp].Path
					if ta.field == "" || p == ta.field || strings.HasPrefix(p, ta.field+".") || strings.HasPrefix(p, ta.field+"[]") {
						allowed = true
					}
				}
			}
			if allowed {
				continue
			}
			g := groups[rootKey]
			if g == nil {
				g = &grp{sk: tb.Fresh("frame$r", SInt)}
				groups[rootKey] = g
				order = append(order, rootKey)
			}
			hyp := []*Term{tb.Lt(g.sk, base0)}
			for _, t := range targets {
				if t.rootKey == rootKey && t.lo <= comp && comp < t.hi {
					hyp = append(hyp, tb.Ne(g.sk, t.ref))
				}
			}
			g.conds = append(g.conds, tb.Implies(tb.And(hyp...), tb.Eq(tb.Select(hf, g.sk), tb.Select(h0, g.sk))))
		}
		for _, rootKey := range order {
			saved := r.st.pc
			short := rootKey
			if i := strings.LastIndex(short, "/"); i >= 0 {
				short = short[i+1:]
			}
			ex.oblige(r.st, "frame", short, tb.And(groups[rootKey].conds...), nil, "an object of type "+rootKey+" outside the modifies clause is written")
			r.st.pc = saved
		}
	}
}
