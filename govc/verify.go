package main

import (
	"os"
	"go/token"
	"fmt"
	"go/types"
	"runtime/debug"
	"sort"
	"strings"

	"golang.org/x/tools/go/ssa"
)

type FuncResult struct {
	Name        string
	Obligations []*Obligation
	Notes       map[string]int
	Abstracted  int
	Externs     []string
	Err         string
	Exec        *Exec
}

func newExec(p *Program, mode string) *Exec {
	tb := NewTB()
	ex := &Exec{
		tb: tb, prog: p,
		L:         &Layouts{tb: tb, cache: map[string]*Layout{}, abstract: map[string]*types.Struct{}, bv: mode == "bv"},
		heapSorts: map[string]Sort{}, notes: map[string]int{}, typeIDs: map[string]int{}, globals: map[string]*Value{},
		frames: map[*ssa.Function]*writeSet{}, frameParams: map[*ssa.Function][]*Value{}, siteNames: map[ssa.Instruction]string{},
		constSliceArr: map[string]*Term{}, usedExterns: map[string]bool{}, boxes: map[int]*Value{},
	}
	ex.allocBases = map[int]bool{}
	ex.discoverFresh = map[int]bool{}
	ex.ownedForeign = map[int]*ownedObj{}
	ex.sharedRefs = map[int]bool{}
	if !ex.L.bv {
		ex.allocBase = tb.Const("allocBase", SInt)
		ex.allocBases[ex.allocBase.id] = true
	}
	// abstract models of dependency types
	for name, fields := range p.abstractDefs {
		t := p.lookupType(name, nil)
		if t == nil {
			continue
		}
		var fs []*types.Var
		for _, f := range fields {
			ft := p.lookupType(f[1], nil)
			if ft == nil {
				panic("abstract type " + name + ": unknown field type " + f[1])
			}
			fs = append(fs, types.NewField(0, nil, f[0], ft, false))
		}
		ex.L.abstract[typeKey(t)] = types.NewStruct(fs, nil)
	}
	return ex
}

// verifyFunc generates all obligations of one function under contract.
func verifyFunc(p *Program, c *FuncContract) (res *FuncResult) {
	res = &FuncResult{Name: c.Name}
	defer func() {
		if r := recover(); r != nil {
			if se, ok := r.(specError); ok {
				res.Err = fmt.Sprintf("contract error in %s (%s): %s", c.Name, res.Exec.curClause, se.msg)
			} else {
				res.Err = fmt.Sprintf("engine error in %s: %v\n%s", c.Name, r, debug.Stack())
			}
		}
	}()
	ex := newExec(p, c.Mode)
	res.Exec = ex
	fn := c.Fn
	ex.rootFn = fn
	ex.rootName = c.Name
	ex.rootContract = c
	ex.stack = []*ssa.Function{fn}
	st := ex.newState()
	if ex.allocBase != nil {
		ex.assume(st, ex.tb.Gt(ex.allocBase, ex.tb.Int(0)))
	}
	fr := &Frame{fn: fn, regs: map[ssa.Value]*Value{}, contract: c}
	ex.entry = &entrySnapshot{fn: fn}
	ex.entryEnv = map[string]*Value{}
	for i, prm := range fn.Params {
		hv, facts := ex.havoc(prm.Type(), "p."+prm.Name())
		// A-SLICE0: a slice parameter is a view starting at offset 0 of its backing
		// object (sound unless two parameters overlap in one array at different offsets)
		for ci, c := range ex.L.Of(prm.Type()).Comps {
			if (c.Kind == kSliceOff || c.Kind == kStrOff) && c.Lift == 0 {
				// (a string parameter's bytes are a value of its own: offset 0 w.l.o.g.)
				hv.C[ci] = ex.zeroOfSort(c.Sort)
			}
		}
		ex.assume(st, facts)
		ex.assume(st, ex.belowFrontier(hv))
		fr.params = append(fr.params, hv)
		ex.entry.params = append(ex.entry.params, hv)
		ex.entry.names = append(ex.entry.names, prm.Name())
		if i < len(c.ParamNames) {
			ex.entryEnv[c.ParamNames[i]] = hv
		}
	}
	for _, fv := range fn.FreeVars {
		hv, facts := ex.havoc(fv.Type(), "fv."+fv.Name())
		ex.assume(st, facts)
		if _, isPtr := fv.Type().Underlying().(*types.Pointer); isPtr {
			// a captured variable is a cell of the enclosing frame: it exists and is
			// a different cell from every other captured variable
			ex.assume(st, ex.tb.Ne(hv.C[0], ex.refLit(0)))
			for _, o := range fr.freeVars {
				if types.Identical(o.T, hv.T) {
					ex.assume(st, ex.tb.Ne(hv.C[0], o.C[0]))
				}
			}
		}
		fr.freeVars = append(fr.freeVars, hv)
	}
	// implicit precondition: a pointer receiver is non-nil (checked at call sites)
	if recv := fn.Signature.Recv(); recv != nil && len(fr.params) > 0 {
		if _, ok := recv.Type().Underlying().(*types.Pointer); ok {
			ex.assume(st, ex.tb.Ne(fr.params[0].C[0], ex.refLit(0)))
		}
	}
	// axioms
	for _, ax := range p.axioms {
		env := &Env{ex: ex, st: st, vars: map[string]*Value{}, pkg: c.Pkg}
		ex.assume(st, ex.evalSpecBool(env, ax.Expr))
	}
	// requires
	env := &Env{ex: ex, st: st, vars: map[string]*Value{}, pkg: c.Pkg, contract: c}
	for k, v := range ex.entryEnv {
		env.vars[k] = v
	}
	if len(fn.FreeVars) > 0 {
		env.fr = fr // a closure's precondition speaks about its captured variables
	}
	for _, r := range c.Requires {
		ex.assume(st, ex.evalSpecBool(env, r.Expr))
	}
	// shape: every call-site clause of the contract must name a call that exists in the
	// function (or in a closure it contains); a clause whose call is gone decides nothing
	if msg := p.missingCallSites(c, fn); msg != "" {
		ex.obls = append(ex.obls, &Obligation{Name: c.Name + "/shape:call-site-exists:" + strings.Fields(strings.TrimPrefix(msg, "call clause for "))[0], Func: c.Name, Kind: "shape", PC: ex.tb.True, Claim: ex.tb.False, Entry: ex.entry, Detail: msg})
	}
	if os.Getenv("GOVC_DEBUG_SITES") != "" {
		for _, kind := range []string{"return", "store", "append", "copy", "close", "select", "send", "makechan", "mapupdate", "go"} {
			for _, b := range fn.Blocks {
				for _, in := range b.Instrs {
					if o := p.kindOrdinal(in, kind); o >= 0 {
						fmt.Fprintf(os.Stderr, "SITE %s %s#%d line %d\n", c.Name, kind, o, p.prog.Fset.Position(in.Pos()).Line)
					}
				}
			}
		}
	}
	// likewise every at-clause must name an instruction of that kind (and ordinal) that exists
	for _, what := range p.missingAtSites(c, fn) {
		ex.obls = append(ex.obls, &Obligation{Name: c.Name + "/shape:at-site-exists:" + what, Func: c.Name, Kind: "shape", PC: ex.tb.True, Claim: ex.tb.False, Entry: ex.entry, Detail: "at " + what + ": no such instruction in the function any more"})
	}
	ex.oldState = st.clone()
	ex.execBody(fr, st)
	// postconditions at every return
	for _, r := range fr.rets {
		penv := &Env{ex: ex, st: r.st, old: ex.oldState, vars: map[string]*Value{}, pkg: c.Pkg, contract: c}
		for k, v := range ex.entryEnv {
			penv.vars[k] = v
		}
		if len(fn.FreeVars) > 0 {
			penv.fr = fr // a closure's postcondition may speak about its captured variables
		}
		for i, n := range c.ResultNames {
			if i < len(r.results) && n != "" && n != "_" {
				penv.vars[n] = r.results[i]
			}
		}
		for _, e := range c.Ensures {
			if e.Trusted {
				continue
			}
			cond := ex.evalSpecBool(penv, e.Expr)
			ex.obligeSpec(r.st, "post", e.Label, cond, e, nil)
		}
	}
	ex.frameObligations(c, fr, ex.oldState)
	// vacuity guard: some return must be reachable under the contract's assumptions
	if len(fr.rets) > 0 && ex.discover == nil {
		var pcs []*Term
		for _, r := range fr.rets {
			pcs = append(pcs, r.st.pc)
		}
		ex.obls = append(ex.obls, &Obligation{Name: c.Name + "/cover:return", Func: c.Name, Kind: "cover", PC: ex.tb.Or(pcs...), Claim: ex.tb.False, Entry: ex.entry})
	}
	// merge duplicate obligation names (same site reached through several
	// paths, e.g. one ensures at several returns): conjoin as one obligation
	res.Obligations = mergeObligations(ex, ex.obls)
	for _, ob := range res.Obligations {
		if ob.Props == nil {
			ob.Props = c.Props
		}
	}
	res.Notes = ex.notes
	res.Abstracted = ex.abstracted
	for k := range ex.usedExterns {
		res.Externs = append(res.Externs, k)
	}
	sort.Strings(res.Externs)
	return res
}

func mergeObligations(ex *Exec, obls []*Obligation) []*Obligation {
	idx := map[string]*Obligation{}
	var out []*Obligation
	for _, ob := range obls {
		if prev, ok := idx[ob.Name]; ok {
			// (pc1 => c1) && (pc2 => c2) as pc := true, claim := conj
			a := ex.tb.Implies(prev.PC, prev.Claim)
			b := ex.tb.Implies(ob.PC, ob.Claim)
			prev.PC = ex.tb.True
			prev.Claim = ex.tb.And(a, b)
			continue
		}
		idx[ob.Name] = ob
		out = append(out, ob)
	}
	return out
}

// belowFrontier: references reachable directly from parameters predate every
// allocation made by the function.
func (ex *Exec) belowFrontier(v *Value) *Term {
	if ex.allocBase == nil {
		return ex.tb.True
	}
	var fs []*Term
	for i, c := range ex.L.Of(v.T).Comps {
		if c.Lift == 0 && (c.Kind == kRef || c.Kind == kSliceRef || c.Kind == kIfaceVal) {
			fs = append(fs, ex.tb.Lt(v.C[i], ex.allocBase))
		}
	}
	return ex.tb.And(fs...)
}

// verifyLemma: an obligation with no code.
func verifyLemma(p *Program, l *Lemma) *FuncResult {
	res := &FuncResult{Name: "lemma:" + l.Name}
	defer func() {
		if r := recover(); r != nil {
			if se, ok := r.(specError); ok {
				res.Err = fmt.Sprintf("contract error in lemma %s: %s", l.Name, se.msg)
			} else {
				res.Err = fmt.Sprintf("engine error in lemma %s: %v\n%s", l.Name, r, debug.Stack())
			}
		}
	}()
	ex := newExec(p, "")
	res.Exec = ex
	ex.rootName = "lemma"
	st := ex.newState()
	for _, ax := range p.axioms {
		env := &Env{ex: ex, st: st, vars: map[string]*Value{}, pkg: l.Pkg}
		ex.assume(st, ex.evalSpecBool(env, ax.Expr))
	}
	env := &Env{ex: ex, st: st, vars: map[string]*Value{}, pkg: l.Pkg}
	c := ex.evalSpecBool(env, l.Expr)
	ex.oblige(st, "lemma", l.Name, c, nil, "")
	res.Obligations = ex.obls
	for _, ob := range res.Obligations {
		ob.Props = l.Props
	}
	res.Notes = ex.notes
	return res
}

func hasProp(props []string, p string) bool {
	for _, x := range props {
		if x == p {
			return true
		}
	}
	return false
}

func contractMentionsProp(c *FuncContract, prop string) bool {
	if hasProp(c.Props, prop) {
		return true
	}
	for _, cl := range c.Ensures {
		if hasProp(cl.Props, prop) {
			return true
		}
	}
	for _, cl := range c.Requires {
		if hasProp(cl.Props, prop) {
			return true
		}
	}
	for _, l := range c.Loops {
		for _, cl := range l.Invariants {
			if hasProp(cl.Props, prop) {
				return true
			}
		}
	}
	for _, cc := range c.Calls {
		for _, cl := range cc.Requires {
			if hasProp(cl.Props, prop) {
				return true
			}
		}
	}
	return false
}

var _ = strings.TrimSpace


// missingCallSites reports the first call clause without a matching call instruction.
func (p *Program) missingCallSites(c *FuncContract, fn *ssa.Function) string {
	type site struct {
		name string
		ord  int
	}
	var sites []site
	var walk func(f *ssa.Function)
	walk = func(f *ssa.Function) {
		for _, b := range f.Blocks {
			for _, in := range b.Instrs {
				ci, ok := in.(ssa.CallInstruction)
				if !ok {
					continue
				}
				n := callName(ci.Common())
				if n == "" {
					continue
				}
				sites = append(sites, site{n, p.callOrdinal(in, n)})
			}
		}
		for _, a := range f.AnonFuncs {
			if p.contractFor(a) == nil {
				walk(a)
			}
		}
	}
	walk(fn)
	for _, cc := range c.Calls {
		// a clause that only forbids the call (requires ...: false) is satisfied by its absence
		forbidOnly := len(cc.Sets) == 0 && len(cc.Assumes) == 0 && len(cc.Requires) > 0
		for _, r := range cc.Requires {
			if b, ok := r.Expr.(*EBool); !ok || b.Val {
				forbidOnly = false
			}
		}
		if forbidOnly {
			continue
		}
		found := false
		for _, s := range sites {
			if s.name != cc.Callee && !strings.HasSuffix(s.name, "."+cc.Callee) {
				continue
			}
			if cc.Nth >= 0 && cc.Nth != s.ord {
				continue
			}
			found = true
			break
		}
		if !found {
			what := cc.Callee
			if cc.Nth >= 0 {
				what += fmt.Sprintf("#%d", cc.Nth)
			}
			return "call clause for " + what + " : no such call in the function any more"
		}
	}
	return ""
}


// missingAtSites lists the at-clauses (at KIND[#k] requires / set) without a matching instruction.
func (p *Program) missingAtSites(c *FuncContract, fn *ssa.Function) []string {
	keys := map[string]bool{}
	for k, v := range c.At {
		if len(v) > 0 {
			keys[k] = true
		}
	}
	for k, v := range c.AtSets {
		if len(v) > 0 {
			keys[k] = true
		}
	}
	var fns []*ssa.Function
	var walk func(f *ssa.Function)
	walk = func(f *ssa.Function) {
		fns = append(fns, f)
		for _, a := range f.AnonFuncs {
			if p.contractFor(a) == nil {
				walk(a)
			}
		}
	}
	walk(fn)
	var missing []string
	for k := range keys {
		kind, ord := k, -1
		if i := strings.Index(k, "#"); i >= 0 {
			kind = k[:i]
			fmt.Sscanf(k[i+1:], "%d", &ord)
		}
		found := false
		for _, f := range fns {
			n := 0
			for _, b := range f.Blocks {
				for _, in := range b.Instrs {
					if kindMatches(in, kind) {
						n++
					}
				}
			}
			if (ord < 0 && n > 0) || (ord >= 0 && n > ord) {
				found = true
			}
			// the k-th instruction by position must be a real one: in a function with defers the
			// first "return" is the synthetic recover block (no position, never executed normally)
			if ord >= 0 && n > ord {
				for _, b := range f.Blocks {
					for _, in := range b.Instrs {
						if kindMatches(in, kind) && p.kindOrdinal(in, kind) == ord && in.Pos() == token.NoPos {
							found = false
						}
					}
				}
			}
		}
		if !found {
			missing = append(missing, k)
		}
	}
	sort.Strings(missing)
	return missing
}
