package main

import (
	"context"
	"fmt"
	"os"
	"os/exec"
	"path/filepath"
	"regexp"
	"strings"
	"sync"
	"time"
)

type SolveResult struct {
	Status  string // unsat, sat, unknown, timeout, error
	Solver  string
	Seconds float64
	Raw     string
	Model   map[string]string // name -> value text
	Tried   []string
}

type solverDef struct {
	name string
	args func(file string, timeoutS int) []string
}

var solvers = []solverDef{
	{"z3-new", func(f string, t int) []string { return []string{"z3-new", fmt.Sprintf("-T:%d", t), f} }},
	{"z3", func(f string, t int) []string { return []string{"z3", fmt.Sprintf("-T:%d", t), f} }},
	{"cvc5", func(f string, t int) []string {
		return []string{"cvc5", fmt.Sprintf("--tlimit=%d", t*1000), "--incremental", f}
	}},
}

const smtHeader = "(set-option :produce-models true)\n(set-logic ALL)\n"

func scratchDir() string {
	d := os.Getenv("VERIF_SCRATCH")
	if d == "" {
		d = "/root/.cache/verif-scratch"
	}
	os.MkdirAll(d, 0o755)
	return d
}

func runOne(ctx context.Context, s solverDef, file string, timeoutS int) SolveResult {
	args := s.args(file, timeoutS)
	cctx, cancel := context.WithTimeout(ctx, time.Duration(timeoutS+3)*time.Second)
	defer cancel()
	cmd := exec.CommandContext(cctx, args[0], args[1:]...)
	start := time.Now()
	out, _ := cmd.CombinedOutput()
	el := time.Since(start).Seconds()
	txt := string(out)
	first := strings.TrimSpace(strings.SplitN(txt, "\n", 2)[0])
	res := SolveResult{Solver: s.name, Seconds: el, Raw: txt}
	switch {
	case first == "unsat":
		res.Status = "unsat"
	case first == "sat":
		res.Status = "sat"
	case first == "unknown":
		res.Status = "unknown"
	case strings.Contains(first, "timeout") || cctx.Err() != nil:
		res.Status = "timeout"
	default:
		res.Status = "error"
	}
	return res
}

// solve: quick attempt on z3-new, then race all solvers with the full timeout.
func solve(query string, tag string, quickS, fullS int) SolveResult {
	dir := scratchDir()
	file := filepath.Join(dir, fmt.Sprintf("q_%d_%s.smt2", os.Getpid(), tag))
	os.WriteFile(file, []byte(query), 0o644)
	defer os.Remove(file)
	ctx := context.Background()
	var tried []string
	r := runOne(ctx, solvers[0], file, quickS)
	tried = append(tried, fmt.Sprintf("%s:%s:%.2fs", r.Solver, r.Status, r.Seconds))
	if r.Status == "unsat" || r.Status == "sat" {
		r.Tried = tried
		return r
	}
	// race
	rctx, cancel := context.WithCancel(ctx)
	defer cancel()
	ch := make(chan SolveResult, len(solvers))
	for _, s := range solvers {
		s := s
		go func() { ch <- runOne(rctx, s, file, fullS) }()
	}
	var best SolveResult
	best.Status = "unknown"
	for range solvers {
		x := <-ch
		tried = append(tried, fmt.Sprintf("%s:%s:%.2fs", x.Solver, x.Status, x.Seconds))
		if x.Status == "unsat" || x.Status == "sat" {
			cancel()
			x.Tried = tried
			return x
		}
		if best.Raw == "" || x.Status == "unknown" {
			best = x
		}
	}
	best.Tried = tried
	if best.Status == "error" {
		best.Status = "unknown"
	}
	return best
}

var valueRe = regexp.MustCompile(`\(\s*([^\s()]+)\s+(\(-\s*\d+\)|[^\s()]+|\(_ bv\d+ \d+\)|#x[0-9a-fA-F]+|#b[01]+)\s*\)`)

// getValues asks a solver for values of the named terms in a model of query.
func getValues(query string, names []string, extraAsserts []string, tag string, solverName string, timeoutS int) (map[string]string, bool) {
	if len(names) == 0 {
		return map[string]string{}, true
	}
	var sb strings.Builder
	// query already contains header, declarations and asserts but no check-sat
	sb.WriteString(query)
	for _, a := range extraAsserts {
		sb.WriteString(a)
		sb.WriteByte('\n')
	}
	sb.WriteString("(check-sat)\n")
	for _, n := range names {
		fmt.Fprintf(&sb, "(get-value (%s))\n", n)
	}
	dir := scratchDir()
	file := filepath.Join(dir, fmt.Sprintf("m_%d_%s.smt2", os.Getpid(), tag))
	os.WriteFile(file, []byte(sb.String()), 0o644)
	defer os.Remove(file)
	var sd solverDef
	for _, s := range solvers {
		if s.name == solverName {
			sd = s
		}
	}
	if sd.name == "" {
		sd = solvers[0]
	}
	r := runOne(context.Background(), sd, file, timeoutS)
	if r.Status != "sat" {
		return nil, false
	}
	out := map[string]string{}
	lines := strings.Split(r.Raw, "\n")
	// each get-value answer is on its own line(s): ((name value))
	rest := strings.Join(lines[1:], " ")
	idx := 0
	for _, n := range names {
		// find "((" + n + " "
		key := "((" + n + " "
		i := strings.Index(rest[idx:], key)
		if i < 0 {
			continue
		}
		i += idx + len(key)
		// value extends to matching "))"
		depth := 0
		j := i
		for j < len(rest) {
			if rest[j] == '(' {
				depth++
			} else if rest[j] == ')' {
				if depth == 0 {
					break
				}
				depth--
			}
			j++
		}
		out[n] = strings.TrimSpace(rest[i:j])
		idx = j
	}
	return out, true
}

// parallel map over obligations
func parallelDo(n int, workers int, f func(i int)) {
	var wg sync.WaitGroup
	ch := make(chan int)
	for w := 0; w < workers; w++ {
		wg.Add(1)
		go func() {
			defer wg.Done()
			for i := range ch {
				f(i)
			}
		}()
	}
	for i := 0; i < n; i++ {
		ch <- i
	}
	close(ch)
	wg.Wait()
}

func parseSMTInt(s string) (int64, bool) {
	s = strings.TrimSpace(s)
	neg := false
	if strings.HasPrefix(s, "(-") {
		neg = true
		s = strings.TrimSpace(strings.TrimSuffix(strings.TrimPrefix(s, "(-"), ")"))
	}
	var v int64
	if strings.HasPrefix(s, "#x") {
		_, err := fmt.Sscanf(s[2:], "%x", &v)
		return v, err == nil
	}
	if strings.HasPrefix(s, "#b") {
		for _, c := range s[2:] {
			v = v*2 + int64(c-'0')
		}
		return v, true
	}
	if strings.HasPrefix(s, "(_ bv") {
		_, err := fmt.Sscanf(s, "(_ bv%d", &v)
		return v, err == nil
	}
	_, err := fmt.Sscanf(s, "%d", &v)
	if err != nil {
		return 0, false
	}
	if neg {
		v = -v
	}
	return v, true
}

func solveQuick(query string, tag string, quickS int) SolveResult {
	dir := scratchDir()
	file := filepath.Join(dir, fmt.Sprintf("q_%d_%s.smt2", os.Getpid(), tag))
	os.WriteFile(file, []byte(query), 0o644)
	defer os.Remove(file)
	r := runOne(context.Background(), solvers[0], file, quickS)
	r.Tried = []string{fmt.Sprintf("%s:%s:%.2fs", r.Solver, r.Status, r.Seconds)}
	return r
}

// solveWith runs one named solver.
func solveWith(query, tag, solverName string, timeoutS int) SolveResult {
	dir := scratchDir()
	file := filepath.Join(dir, fmt.Sprintf("q_%d_%s.smt2", os.Getpid(), tag))
	os.WriteFile(file, []byte(query), 0o644)
	defer os.Remove(file)
	sd := solvers[0]
	for _, s := range solvers {
		if s.name == solverName {
			sd = s
		}
	}
	return runOne(context.Background(), sd, file, timeoutS)
}
