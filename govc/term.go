package main

// Hash-consed SMT-LIB term DAG with light simplification and a printer that
// emits one define-fun per shared node, so query size stays linear in the
// number of distinct nodes.

import (
	"fmt"
	"math/big"
	"sort"
	"strings"
)

type Sort string

const (
	SInt  Sort = "Int"
	SBool Sort = "Bool"
	SArr  Sort = "(Array Int Int)"
	SFP   Sort = "(_ FloatingPoint 11 53)"
)

func ArrOf(s Sort) Sort { return Sort("(Array Int " + string(s) + ")") }
func (s Sort) IsArr() bool { return strings.HasPrefix(string(s), "(Array ") }
func (s Sort) Elem() Sort {
	if !s.IsArr() {
		panic("Elem of non-array sort " + string(s))
	}
	rest := strings.TrimPrefix(string(s), "(Array ")
	if strings.HasPrefix(rest, "Int ") {
		rest = strings.TrimPrefix(rest, "Int ")
	} else if strings.HasPrefix(rest, "(_ BitVec ") {
		i := strings.Index(rest, ")")
		rest = rest[i+2:]
	}
	return Sort(strings.TrimSuffix(rest, ")"))
}
func BVSort(w int) Sort { return Sort(fmt.Sprintf("(_ BitVec %d)", w)) }
func (s Sort) IsBV() bool { return strings.HasPrefix(string(s), "(_ BitVec ") }
func (s Sort) BVWidth() int {
	var w int
	fmt.Sscanf(string(s), "(_ BitVec %d)", &w)
	return w
}

type Term struct {
	Op    string // "const", "lit", "bvar", or an SMT operator / quantifier
	Name  string // symbol for const/bvar, text for lit, binder list for quantifiers
	Args  []*Term
	Sort  Sort
	id    int
	bound bool     // mentions a free bound variable
	fv    []*Term  // free bound variables
	ival  *big.Int // value for Int / BV literals
}

func (t *Term) IsLit() bool  { return t.Op == "lit" }
func (t *Term) IsTrue() bool  { return t.Op == "lit" && t.Name == "true" }
func (t *Term) IsFalse() bool { return t.Op == "lit" && t.Name == "false" }

type TB struct {
	tab    map[string]*Term
	next   int
	decls  []*Term // declared constants, in creation order
	fresh  int
	ufs    map[string]string // uninterpreted function declarations: name -> "(args) ret"
	ufsOrd []string
	defNames []string
	defs   []string // raw SMT definitions (define-fun-rec, axioms as text) emitted in every query
	tables map[int]string // constant-table array term id -> name of its defined lookup function
	True   *Term
	False  *Term
}

func NewTB() *TB {
	tb := &TB{tab: map[string]*Term{}, ufs: map[string]string{}}
	tb.True = tb.mk("lit", "true", SBool)
	tb.False = tb.mk("lit", "false", SBool)
	return tb
}

func (tb *TB) mk(op, name string, sort Sort, args ...*Term) *Term {
	var sb strings.Builder
	sb.WriteString(op)
	sb.WriteByte('|')
	sb.WriteString(name)
	sb.WriteByte('|')
	sb.WriteString(string(sort))
	for _, a := range args {
		fmt.Fprintf(&sb, "|%d", a.id)
	}
	k := sb.String()
	if t, ok := tb.tab[k]; ok {
		return t
	}
	t := &Term{Op: op, Name: name, Args: args, Sort: sort, id: tb.next}
	tb.next++
	for _, a := range args {
		for _, v := range a.fv {
			t.addFV(v)
		}
	}
	if op == "bvar" {
		t.fv = []*Term{t}
	}
	t.bound = len(t.fv) > 0
	tb.tab[k] = t
	return t
}

// ---- leaves ----

func (tb *TB) Const(name string, s Sort) *Term {
	name = sanitize(name)
	k := "const|" + name + "|" + string(s)
	if t, ok := tb.tab[k]; ok {
		return t
	}
	t := tb.mk("const", name, s)
	tb.decls = append(tb.decls, t)
	return t
}

func (tb *TB) Fresh(prefix string, s Sort) *Term {
	tb.fresh++
	return tb.Const(fmt.Sprintf("%s!%d", prefix, tb.fresh), s)
}

func (tb *TB) BVar(name string, s Sort) *Term { return tb.mk("bvar", sanitize(name), s) }

func sanitize(s string) string {
	var sb strings.Builder
	for _, r := range s {
		switch {
		case r >= 'a' && r <= 'z', r >= 'A' && r <= 'Z', r >= '0' && r <= '9', r == '_', r == '!', r == '.', r == '$':
			sb.WriteRune(r)
		default:
			sb.WriteByte('_')
		}
	}
	return sb.String()
}

func (tb *TB) Int(v int64) *Term { return tb.BigInt(big.NewInt(v)) }
func (tb *TB) BigInt(v *big.Int) *Term {
	var txt string
	if v.Sign() < 0 {
		txt = "(- " + new(big.Int).Neg(v).String() + ")"
	} else {
		txt = v.String()
	}
	t := tb.mk("lit", txt, SInt)
	if t.ival == nil {
		t.ival = new(big.Int).Set(v)
	}
	return t
}
func (tb *TB) Bool(b bool) *Term {
	if b {
		return tb.True
	}
	return tb.False
}
func (tb *TB) BV(v *big.Int, w int) *Term {
	m := new(big.Int).Lsh(big.NewInt(1), uint(w))
	x := new(big.Int).Mod(v, m)
	t := tb.mk("lit", fmt.Sprintf("(_ bv%s %d)", x.String(), w), BVSort(w))
	if t.ival == nil {
		t.ival = x
	}
	return t
}
func (tb *TB) RawLit(txt string, s Sort) *Term { return tb.mk("lit", txt, s) }

// ---- boolean ----

func (tb *TB) Not(a *Term) *Term {
	switch {
	case a.IsTrue():
		return tb.False
	case a.IsFalse():
		return tb.True
	case a.Op == "not":
		return a.Args[0]
	}
	return tb.mk("not", "", SBool, a)
}

func (tb *TB) And(as ...*Term) *Term {
	var out []*Term
	seen := map[int]bool{}
	for _, a := range as {
		if a == nil || a.IsTrue() {
			continue
		}
		if a.IsFalse() {
			return tb.False
		}
		if a.Op == "and" {
			for _, b := range a.Args {
				if !seen[b.id] {
					seen[b.id] = true
					out = append(out, b)
				}
			}
			continue
		}
		if !seen[a.id] {
			seen[a.id] = true
			out = append(out, a)
		}
	}
	for _, a := range out {
		if a.Op == "not" && seen[a.Args[0].id] {
			return tb.False
		}
	}
	switch len(out) {
	case 0:
		return tb.True
	case 1:
		return out[0]
	}
	return tb.mk("and", "", SBool, out...)
}

func (tb *TB) Or(as ...*Term) *Term {
	var out []*Term
	seen := map[int]bool{}
	for _, a := range as {
		if a == nil || a.IsFalse() {
			continue
		}
		if a.IsTrue() {
			return tb.True
		}
		if a.Op == "or" {
			for _, b := range a.Args {
				if !seen[b.id] {
					seen[b.id] = true
					out = append(out, b)
				}
			}
			continue
		}
		if !seen[a.id] {
			seen[a.id] = true
			out = append(out, a)
		}
	}
	for _, a := range out {
		if a.Op == "not" && seen[a.Args[0].id] {
			return tb.True
		}
	}
	switch len(out) {
	case 0:
		return tb.False
	case 1:
		return out[0]
	}
	return tb.mk("or", "", SBool, out...)
}

func (tb *TB) Implies(a, b *Term) *Term {
	switch {
	case a.IsTrue():
		return b
	case a.IsFalse(), b.IsTrue():
		return tb.True
	case b.IsFalse():
		return tb.Not(a)
	}
	return tb.mk("=>", "", SBool, a, b)
}

func (tb *TB) Ite(c, a, b *Term) *Term {
	switch {
	case c.IsTrue():
		return a
	case c.IsFalse():
		return b
	case a == b:
		return a
	}
	if a.Sort != b.Sort {
		panic(fmt.Sprintf("ite sort mismatch %s vs %s", a.Sort, b.Sort))
	}
	if a.Sort == SBool {
		if a.IsTrue() && b.IsFalse() {
			return c
		}
		if a.IsFalse() && b.IsTrue() {
			return tb.Not(c)
		}
	}
	return tb.mk("ite", "", a.Sort, c, a, b)
}

func (tb *TB) Eq(a, b *Term) *Term {
	if a == b {
		return tb.True
	}
	if a.Sort != b.Sort {
		panic(fmt.Sprintf("eq sort mismatch %s vs %s (%s, %s)", a.Sort, b.Sort, tb.Show(a), tb.Show(b)))
	}
	if a.IsLit() && b.IsLit() {
		if a.ival != nil && b.ival != nil {
			return tb.Bool(a.ival.Cmp(b.ival) == 0)
		}
		if a.Sort == SBool {
			return tb.Bool(a.Name == b.Name)
		}
	}
	if a.Sort == SBool {
		if a.IsTrue() {
			return b
		}
		if b.IsTrue() {
			return a
		}
		if a.IsFalse() {
			return tb.Not(b)
		}
		if b.IsFalse() {
			return tb.Not(a)
		}
	}
	if a.id > b.id {
		a, b = b, a
	}
	return tb.mk("=", "", SBool, a, b)
}

func (tb *TB) Ne(a, b *Term) *Term { return tb.Not(tb.Eq(a, b)) }

// ---- integer arithmetic (mathematical Int) ----

func (tb *TB) Add(a, b *Term) *Term {
	if a.Sort.IsBV() {
		return tb.bvbin("bvadd", a, b, func(x, y *big.Int) *big.Int { return new(big.Int).Add(x, y) })
	}
	if a.ival != nil && b.ival != nil {
		return tb.BigInt(new(big.Int).Add(a.ival, b.ival))
	}
	if a.ival != nil && a.ival.Sign() == 0 {
		return b
	}
	if b.ival != nil && b.ival.Sign() == 0 {
		return a
	}
	// a + (j - a) -> j   (re-basing of quantified indices)
	if b.Op == "-" && len(b.Args) == 2 && b.Args[1] == a {
		return b.Args[0]
	}
	if a.Op == "-" && len(a.Args) == 2 && a.Args[1] == b {
		return a.Args[0]
	}
	// (x + c1) + c2 -> x + (c1+c2)
	if b.ival != nil && a.Op == "+" && len(a.Args) == 2 && a.Args[1].ival != nil {
		return tb.Add(a.Args[0], tb.BigInt(new(big.Int).Add(a.Args[1].ival, b.ival)))
	}
	if a.ival != nil && b.ival == nil {
		a, b = b, a
	}
	return tb.mk("+", "", SInt, a, b)
}

func (tb *TB) Sub(a, b *Term) *Term {
	if a.Sort.IsBV() {
		return tb.bvbin("bvsub", a, b, func(x, y *big.Int) *big.Int { return new(big.Int).Sub(x, y) })
	}
	if a == b {
		return tb.Int(0)
	}
	if b.ival != nil {
		return tb.Add(a, tb.BigInt(new(big.Int).Neg(b.ival)))
	}
	if a.ival != nil && b.ival != nil {
		return tb.BigInt(new(big.Int).Sub(a.ival, b.ival))
	}
	return tb.mk("-", "", SInt, a, b)
}

func (tb *TB) Neg(a *Term) *Term {
	if a.Sort.IsBV() {
		return tb.mk("bvneg", "", a.Sort, a)
	}
	return tb.Sub(tb.Int(0), a)
}

func (tb *TB) Mul(a, b *Term) *Term {
	if a.Sort.IsBV() {
		return tb.bvbin("bvmul", a, b, func(x, y *big.Int) *big.Int { return new(big.Int).Mul(x, y) })
	}
	if a.ival != nil && b.ival != nil {
		return tb.BigInt(new(big.Int).Mul(a.ival, b.ival))
	}
	if a.ival != nil {
		a, b = b, a
	}
	if b.ival != nil {
		if b.ival.Sign() == 0 {
			return tb.Int(0)
		}
		if b.ival.Cmp(big.NewInt(1)) == 0 {
			return a
		}
	}
	return tb.mk("*", "", SInt, a, b)
}

// Div/Mod are SMT-LIB Euclidean div/mod (floor for positive divisor).
func (tb *TB) Div(a, b *Term) *Term {
	if a.ival != nil && b.ival != nil && b.ival.Sign() > 0 {
		q := new(big.Int)
		m := new(big.Int)
		q.DivMod(a.ival, b.ival, m)
		return tb.BigInt(q)
	}
	if b.ival != nil && b.ival.Cmp(big.NewInt(1)) == 0 {
		return a
	}
	return tb.mk("div", "", SInt, a, b)
}
func (tb *TB) Mod(a, b *Term) *Term {
	if a.ival != nil && b.ival != nil && b.ival.Sign() > 0 {
		q := new(big.Int)
		m := new(big.Int)
		q.DivMod(a.ival, b.ival, m)
		return tb.BigInt(m)
	}
	// (x mod m) mod m
	if a.Op == "mod" && a.Args[1] == b {
		return a
	}
	return tb.mk("mod", "", SInt, a, b)
}

func (tb *TB) cmp(op string, a, b *Term, f func(int) bool) *Term {
	if a.ival != nil && b.ival != nil && !a.Sort.IsBV() {
		return tb.Bool(f(a.ival.Cmp(b.ival)))
	}
	if a.Sort != b.Sort {
		panic(fmt.Sprintf("cmp sort mismatch %s vs %s", a.Sort, b.Sort))
	}
	return tb.mk(op, "", SBool, a, b)
}
func (tb *TB) Lt(a, b *Term) *Term {
	if a == b {
		return tb.False
	}
	return tb.cmp("<", a, b, func(c int) bool { return c < 0 })
}
func (tb *TB) Le(a, b *Term) *Term {
	if a == b {
		return tb.True
	}
	return tb.cmp("<=", a, b, func(c int) bool { return c <= 0 })
}
func (tb *TB) Gt(a, b *Term) *Term { return tb.Lt(b, a) }
func (tb *TB) Ge(a, b *Term) *Term { return tb.Le(b, a) }

// ---- bit-vectors ----

func (tb *TB) bvbin(op string, a, b *Term, f func(x, y *big.Int) *big.Int) *Term {
	if a.Sort != b.Sort {
		panic(fmt.Sprintf("%s sort mismatch %s vs %s", op, a.Sort, b.Sort))
	}
	if a.ival != nil && b.ival != nil && f != nil {
		return tb.BV(f(a.ival, b.ival), a.Sort.BVWidth())
	}
	return tb.mk(op, "", a.Sort, a, b)
}
func (tb *TB) BVOp(op string, a, b *Term) *Term { return tb.bvbin(op, a, b, nil) }
func (tb *TB) BVCmp(op string, a, b *Term) *Term {
	if a.Sort != b.Sort {
		panic(fmt.Sprintf("%s sort mismatch %s vs %s", op, a.Sort, b.Sort))
	}
	return tb.mk(op, "", SBool, a, b)
}
func (tb *TB) BVNot(a *Term) *Term { return tb.mk("bvnot", "", a.Sort, a) }
func (tb *TB) BVExtract(hi, lo int, a *Term) *Term {
	if a.ival != nil {
		v := new(big.Int).Rsh(a.ival, uint(lo))
		return tb.BV(v, hi-lo+1)
	}
	return tb.mk(fmt.Sprintf("(_ extract %d %d)", hi, lo), "", BVSort(hi-lo+1), a)
}
func (tb *TB) BVZeroExt(n int, a *Term) *Term {
	if n == 0 {
		return a
	}
	if a.ival != nil {
		return tb.BV(a.ival, a.Sort.BVWidth()+n)
	}
	return tb.mk(fmt.Sprintf("(_ zero_extend %d)", n), "", BVSort(a.Sort.BVWidth()+n), a)
}
func (tb *TB) BVSignExt(n int, a *Term) *Term {
	if n == 0 {
		return a
	}
	return tb.mk(fmt.Sprintf("(_ sign_extend %d)", n), "", BVSort(a.Sort.BVWidth()+n), a)
}

// ---- arrays ----

// RegisterTable makes reads of the constant array arr at a symbolic index applications of a
// defined function (an ite chain over the index): pure bit-vector reasoning instead of array theory.
func (tb *TB) RegisterTable(arr *Term, name string, idxSort Sort, keys, vals []*Term, dflt *Term) {
	if tb.tables == nil {
		tb.tables = map[int]string{}
	}
	if _, ok := tb.tables[arr.id]; ok {
		return
	}
	name = sanitize("tab$" + name)
	var sb strings.Builder
	fmt.Fprintf(&sb, "(define-fun %s ((i %s)) %s ", name, idxSort, arr.Sort.Elem())
	for k := range vals {
		fmt.Fprintf(&sb, "(ite (= i %s) %s ", tb.Show(keys[k]), tb.Show(vals[k]))
	}
	sb.WriteString(tb.Show(dflt))
	sb.WriteString(strings.Repeat(")", len(vals)+1))
	tb.AddDef(name, sb.String())
	tb.tables[arr.id] = name
}

func (tb *TB) Select(a, i *Term) *Term {
	if !a.Sort.IsArr() {
		panic("select on non-array " + string(a.Sort) + " " + tb.Show(a))
	}
	if name, ok := tb.tables[a.id]; ok && i.ival == nil {
		return tb.App(name, a.Sort.Elem(), i)
	}
	// read-over-write simplification
	cur := a
	for cur.Op == "store" {
		j := cur.Args[1]
		if j == i {
			return cur.Args[2]
		}
		if j.ival != nil && i.ival != nil && j.ival.Cmp(i.ival) != 0 {
			cur = cur.Args[0]
			continue
		}
		// i = x + c1, j = x + c2, c1 != c2
		if distinctOffsets(i, j) {
			cur = cur.Args[0]
			continue
		}
		break
	}
	if cur.Op == "constarr" {
		return cur.Args[0]
	}
	return tb.mk("select", "", a.Sort.Elem(), cur, i)
}

func distinctOffsets(i, j *Term) bool {
	bi, ci := splitOffset(i)
	bj, cj := splitOffset(j)
	return bi == bj && bi != nil && ci.Cmp(cj) != 0
}
func splitOffset(t *Term) (*Term, *big.Int) {
	if t.Op == "+" && len(t.Args) == 2 && t.Args[1].ival != nil {
		return t.Args[0], t.Args[1].ival
	}
	if t.ival != nil {
		return nil, t.ival
	}
	return t, big.NewInt(0)
}

func (tb *TB) Store(a, i, v *Term) *Term {
	if !a.Sort.IsArr() {
		panic("store on non-array " + string(a.Sort))
	}
	if a.Sort.Elem() != v.Sort {
		panic(fmt.Sprintf("store sort mismatch: array %s value %s", a.Sort, v.Sort))
	}
	if a.Op == "store" && a.Args[1] == i {
		a = a.Args[0]
	}
	return tb.mk("store", "", a.Sort, a, i, v)
}

func (tb *TB) ConstArr(s Sort, v *Term) *Term {
	return tb.mk("constarr", string(s), s, v)
}

// ---- uninterpreted functions / raw application ----

func (tb *TB) DeclareUF(name string, args []Sort, ret Sort) {
	name = sanitize(name)
	if _, ok := tb.ufs[name]; ok {
		return
	}
	var as []string
	for _, a := range args {
		as = append(as, string(a))
	}
	tb.ufs[name] = "(" + strings.Join(as, " ") + ") " + string(ret)
	tb.ufsOrd = append(tb.ufsOrd, name)
}
// AddDef registers a raw SMT-LIB definition once.
func (tb *TB) AddDef(name, def string) {
	for _, d := range tb.defNames {
		if d == name {
			return
		}
	}
	tb.defNames = append(tb.defNames, name)
	tb.defs = append(tb.defs, def)
}

func (tb *TB) App(name string, ret Sort, args ...*Term) *Term {
	return tb.mk("app", sanitize(name), ret, args...)
}

// Raw applies an arbitrary SMT operator.
func (tb *TB) Raw(op string, ret Sort, args ...*Term) *Term { return tb.mk(op, "", ret, args...) }

// ---- quantifiers ----

func (tb *TB) Forall(vars []*Term, body *Term) *Term { return tb.quant("forall", vars, body) }
func (tb *TB) Exists(vars []*Term, body *Term) *Term { return tb.quant("exists", vars, body) }
func (tb *TB) quant(q string, vars []*Term, body *Term) *Term {
	if body.IsLit() || len(vars) == 0 {
		return body
	}
	var bs []string
	for _, v := range vars {
		bs = append(bs, fmt.Sprintf("(%s %s)", v.Name, v.Sort))
	}
	t := tb.mk(q, "("+strings.Join(bs, " ")+")", SBool, body)
	var fv []*Term
	for _, v := range body.fv {
		closed := false
		for _, c := range vars {
			if c == v {
				closed = true
			}
		}
		if !closed {
			fv = append(fv, v)
		}
	}
	t.fv = fv
	t.bound = len(fv) > 0
	return t
}

func (t *Term) addFV(v *Term) {
	for _, x := range t.fv {
		if x == v {
			return
		}
	}
	t.fv = append(t.fv, v)
}

// ---- substitution (used to instantiate spec macros / old-state maps) ----

func (tb *TB) Subst(t *Term, m map[*Term]*Term) *Term {
	cache := map[int]*Term{}
	var rec func(t *Term) *Term
	rec = func(t *Term) *Term {
		if r, ok := m[t]; ok {
			return r
		}
		if len(t.Args) == 0 {
			return t
		}
		if r, ok := cache[t.id]; ok {
			return r
		}
		args := make([]*Term, len(t.Args))
		changed := false
		for i, a := range t.Args {
			args[i] = rec(a)
			if args[i] != a {
				changed = true
			}
		}
		r := t
		if changed {
			r = tb.rebuild(t, args)
		}
		cache[t.id] = r
		return r
	}
	return rec(t)
}

func (tb *TB) rebuild(t *Term, args []*Term) *Term {
	switch t.Op {
	case "not":
		return tb.Not(args[0])
	case "and":
		return tb.And(args...)
	case "or":
		return tb.Or(args...)
	case "=>":
		return tb.Implies(args[0], args[1])
	case "ite":
		return tb.Ite(args[0], args[1], args[2])
	case "=":
		return tb.Eq(args[0], args[1])
	case "+":
		return tb.Add(args[0], args[1])
	case "-":
		return tb.Sub(args[0], args[1])
	case "*":
		return tb.Mul(args[0], args[1])
	case "div":
		return tb.Div(args[0], args[1])
	case "mod":
		return tb.Mod(args[0], args[1])
	case "<":
		return tb.Lt(args[0], args[1])
	case "<=":
		return tb.Le(args[0], args[1])
	case "select":
		return tb.Select(args[0], args[1])
	case "store":
		return tb.Store(args[0], args[1], args[2])
	}
	if t.Op == "forall" || t.Op == "exists" {
		// re-close the same binder list
		var vars []*Term
		for _, f := range strings.Split(strings.Trim(t.Name, "()"), ") (") {
			parts := strings.SplitN(f, " ", 2)
			vars = append(vars, tb.BVar(parts[0], Sort(parts[1])))
		}
		return tb.quant(t.Op, vars, args[0])
	}
	return tb.mk(t.Op, t.Name, t.Sort, args...)
}

// ---- printing ----

func (tb *TB) Show(t *Term) string {
	var sb strings.Builder
	tb.inline(&sb, t, nil, 0)
	s := sb.String()
	if len(s) > 400 {
		s = s[:400] + "..."
	}
	return s
}

func (tb *TB) inline(sb *strings.Builder, t *Term, named map[int]string, depth int) {
	if named != nil {
		if n, ok := named[t.id]; ok {
			sb.WriteString(n)
			return
		}
	}
	switch t.Op {
	case "const", "bvar", "lit":
		sb.WriteString(t.Name)
	case "app":
		if len(t.Args) == 0 {
			sb.WriteString(t.Name)
			return
		}
		sb.WriteString("(" + t.Name)
		for _, a := range t.Args {
			sb.WriteByte(' ')
			tb.inline(sb, a, named, depth+1)
		}
		sb.WriteByte(')')
	case "constarr":
		sb.WriteString("((as const " + t.Name + ") ")
		tb.inline(sb, t.Args[0], named, depth+1)
		sb.WriteByte(')')
	case "forall", "exists":
		sb.WriteString("(" + t.Op + " " + t.Name + " ")
		tb.inline(sb, t.Args[0], named, depth+1)
		sb.WriteByte(')')
	default:
		sb.WriteString("(" + t.Op)
		for _, a := range t.Args {
			sb.WriteByte(' ')
			tb.inline(sb, a, named, depth+1)
		}
		sb.WriteByte(')')
	}
}

// Script renders a complete query: declarations, definitions of every shared
// closed node reachable from roots, then the given assertions.
func (tb *TB) Script(logicHeader string, asserts []*Term, extra []string) string {
	var sb strings.Builder
	sb.WriteString(logicHeader)
	// collect reachable nodes
	reach := map[int]*Term{}
	refs := map[int]int{}
	var order []*Term
	var walk func(t *Term)
	walk = func(t *Term) {
		refs[t.id]++
		if _, ok := reach[t.id]; ok {
			return
		}
		reach[t.id] = t
		for _, a := range t.Args {
			walk(a)
		}
		order = append(order, t) // post-order: args first
	}
	for _, a := range asserts {
		walk(a)
	}
	// declarations
	var consts []*Term
	usedUF := map[string]bool{}
	for _, t := range order {
		if t.Op == "const" {
			consts = append(consts, t)
		}
		if t.Op == "app" {
			usedUF[t.Name] = true
		}
	}
	sort.Slice(consts, func(i, j int) bool { return consts[i].id < consts[j].id })
	for _, c := range consts {
		fmt.Fprintf(&sb, "(declare-fun %s () %s)\n", c.Name, c.Sort)
	}
	for _, n := range tb.ufsOrd {
		fmt.Fprintf(&sb, "(declare-fun %s %s)\n", n, tb.ufs[n])
	}
	for _, d := range tb.defs {
		sb.WriteString(d)
		sb.WriteByte('\n')
	}
	for _, d := range extra {
		sb.WriteString(d)
		sb.WriteByte('\n')
	}
	named := map[int]string{}
	for _, t := range order {
		if len(t.Args) == 0 || t.bound {
			continue
		}
		if refs[t.id] < 2 && t.Op != "store" && t.Op != "ite" {
			// keep single-use small nodes inline, but avoid deep nesting for
			// chains (store/ite) by always naming those
			continue
		}
		name := fmt.Sprintf("n%d", t.id)
		var b strings.Builder
		// temporarily un-name self
		tb.inline(&b, t, named, 0)
		fmt.Fprintf(&sb, "(define-fun %s () %s %s)\n", name, t.Sort, b.String())
		named[t.id] = name
	}
	for _, a := range asserts {
		var b strings.Builder
		tb.inline(&b, a, named, 0)
		fmt.Fprintf(&sb, "(assert %s)\n", b.String())
	}
	return sb.String()
}

// SimplifyUnder drops conjuncts of claim that appear syntactically among the
// conjuncts of pc (hash-consing makes identical formulas identical nodes).
func (tb *TB) SimplifyUnder(pc, claim *Term) *Term {
	have := map[int]bool{}
	var collect func(t *Term)
	collect = func(t *Term) {
		if t.Op == "and" {
			for _, a := range t.Args {
				collect(a)
			}
			return
		}
		have[t.id] = true
	}
	collect(pc)
	var simp func(t *Term) *Term
	simp = func(t *Term) *Term {
		if have[t.id] {
			return tb.True
		}
		switch t.Op {
		case "and":
			var out []*Term
			for _, a := range t.Args {
				out = append(out, simp(a))
			}
			return tb.And(out...)
		case "=>":
			if have[t.Args[0].id] {
				return simp(t.Args[1])
			}
			return tb.Implies(t.Args[0], simp(t.Args[1]))
		}
		return t
	}
	return simp(claim)
}
