package main

// Symbolic execution of go/ssa (NaiveForm) function bodies with state merging
// at join points and loop cutting by invariants.  Every runtime-panic site,
// callee precondition, loop invariant and postcondition becomes a named
// Obligation (path condition => claim) that is later sent to the SMT solvers.

import (
	"fmt"
	"go/token"
	"go/types"
	"sort"
	"strings"
	"sync"

	"golang.org/x/tools/go/ssa"
)

type Obligation struct {
	Name   string   // stable, line-free: <pkg.func>/<kind>:<expr-or-label>[#k][@inline-path]
	Func   string   // function under contract
	Kind   string   // index, slice, nil, div, make, typeassert, panic, fatal, pre, post, inv-entry, inv-step, dec, unsupported
	Props  []string // properties this obligation counts toward
	PC     *Term
	Claim  *Term
	Pos    token.Position
	Detail string
	Entry  *entrySnapshot // parameter values at function entry (for replay)
}

type entrySnapshot struct {
	fn     *ssa.Function
	params []*Value
	names  []string
}

type Exec struct {
	tb        *TB
	L         *Layouts
	prog      *Program
	epoch     int
	heapSorts map[string]Sort
	obls      []*Obligation
	notes     map[string]int
	stack     []*ssa.Function
	inlinePath []string

	rootFn       *ssa.Function
	rootName     string
	rootContract *FuncContract
	entry        *entrySnapshot
	oldState     *State
	entryEnv     map[string]*Value

	allocBase *Term
	allocN    int
	typeIDs   map[string]int
	globals   map[string]*Value

	discover *writeSet // non-nil: discovery mode (no obligations, record writes)
	frames   map[*ssa.Function]*writeSet
	frameParams map[*ssa.Function][]*Value
	stackBase int
	quiet    int

	siteNames map[ssa.Instruction]string
	abstracted int
	mu            sync.Mutex
	constSliceArr map[string]*Term
	usedExterns   map[string]bool
	boxes         map[int]*Value // box identity term id -> boxed (non-pointer) value
	allocBases    map[int]bool   // term ids of allocation frontiers
	discoverFresh map[int]bool   // refs allocated during the running write-set discovery
	ownedForeign  map[int]*ownedObj // objects of dependency types allocated by the code under verification
	sharedRefs    map[int]bool      // ... whose reference was handed out (interface / stored): no longer private
	curClause     string            // clause being evaluated (for error messages)
	globalFacts   []*Term        // definitional facts about fresh constants (hold on every path)
}

type ownedObj struct {
	ref *Term
	t   types.Type
}

type writeSet struct {
	mark   int // term ids below this existed when the discovery started (loop-invariant terms)
	all    bool
	classes [nClasses]bool // whole heap classes forgotten
	heap   map[string]heapKeyInfo
	locals map[*ssa.Alloc]bool
	ghosts map[string]bool
}

type heapKeyInfo struct {
	rootKey string
	root types.Type
	comp int
	sort Sort
	wide bool    // written at objects that cannot be named outside the discovery
	refs []*Term // otherwise: the objects written
}

// noteWrite records a heap write during write-set discovery; ref == nil means
// "some object of that type".
func (w *writeSet) noteWrite(k string, info heapKeyInfo, ref *Term) {
	old, ok := w.heap[k]
	if ok {
		info.wide = info.wide || old.wide
		info.refs = old.refs
		if info.root == nil {
			info.root = old.root
		}
	}
	if ref == nil {
		info.wide = true
	} else if !info.wide {
		dup := false
		for _, r := range info.refs {
			if r == ref {
				dup = true
			}
		}
		if !dup {
			info.refs = append(append([]*Term(nil), info.refs...), ref)
		}
	}
	if info.wide {
		info.refs = nil
	}
	w.heap[k] = info
}

func newWriteSet() *writeSet {
	return &writeSet{heap: map[string]heapKeyInfo{}, locals: map[*ssa.Alloc]bool{}, ghosts: map[string]bool{}}
}

func (w *writeSet) addAll(o *writeSet) {
	if o.all {
		w.all = true
	}
	for c := range o.classes {
		if o.classes[c] {
			w.classes[c] = true
		}
	}
	for k, v := range o.heap {
		if v.wide || len(v.refs) == 0 {
			w.noteWrite(k, v, nil)
			continue
		}
		for _, r := range v.refs {
			w.noteWrite(k, v, r)
		}
	}
	for k := range o.locals {
		w.locals[k] = true
	}
	for k := range o.ghosts {
		w.ghosts[k] = true
	}
}

func (ex *Exec) note(s string) {
	if ex.discover != nil {
		return
	}
	ex.notes[s]++
}

type Frame struct {
	fn       *ssa.Function
	regs     map[ssa.Value]*Value
	params   []*Value
	freeVars []*Value
	rets     []retState
	inline   bool
	loops    map[*ssa.BasicBlock]*loopInfo
	contract *FuncContract
}

type retState struct {
	st      *State
	results []*Value
}

type loopInfo struct {
	header  *ssa.BasicBlock
	blocks  map[*ssa.BasicBlock]bool
	latches []*ssa.BasicBlock
	ordinal int
	minPos  token.Pos
}

// ---- obligations ----

func (ex *Exec) oblige(st *State, kind, what string, claim *Term, instr ssa.Instruction, detail string) {
	// after an obligation is recorded it is assumed on the continuing path
	defer ex.assume(st, claim)
	if ex.discover != nil || ex.quiet > 0 {
		return
	}
	if ex.rootContract != nil && ex.rootContract.NoSafety && (panicKinds[kind] || kind == "alloc" || kind == "fpconv") {
		// the contract covers only its stated clauses: the safety sweep of this function is
		// not generated (and is listed as unchecked in the evidence)
		ex.usedExterns["safety sweep not generated for "+ex.rootName+" (nosafety)"] = true
		return
	}
	name := ex.rootName + "/" + kind
	if what != "" {
		name += ":" + what
	}
	if len(ex.inlinePath) > 0 {
		name += "@" + strings.Join(ex.inlinePath, ">")
	}
	var pos token.Position
	if instr != nil && instr.Pos().IsValid() {
		pos = ex.prog.fset.Position(instr.Pos())
	}
	ob := &Obligation{Name: name, Func: ex.rootName, Kind: kind, PC: st.pc, Claim: claim, Pos: pos, Detail: detail, Entry: ex.entry}
	ex.obls = append(ex.obls, ob)
}

// siteWhat returns a stable textual label for the instruction's source
// expression (plus an occurrence index when the same text appears twice).
func (ex *Exec) siteWhat(instr ssa.Instruction) string {
	if n, ok := ex.siteNames[instr]; ok {
		return n
	}
	return ex.prog.siteName(instr)
}

// ---- function body execution ----

func (ex *Exec) findLoops(fn *ssa.Function) map[*ssa.BasicBlock]*loopInfo {
	loops := map[*ssa.BasicBlock]*loopInfo{}
	for _, b := range fn.Blocks {
		for _, s := range b.Succs {
			if s.Dominates(b) { // back edge b -> s
				li := loops[s]
				if li == nil {
					li = &loopInfo{header: s, blocks: map[*ssa.BasicBlock]bool{s: true}}
					loops[s] = li
				}
				li.latches = append(li.latches, b)
				// natural loop: all blocks that reach b without passing s
				var work []*ssa.BasicBlock
				if !li.blocks[b] {
					li.blocks[b] = true
					work = append(work, b)
				}
				for len(work) > 0 {
					x := work[len(work)-1]
					work = work[:len(work)-1]
					for _, p := range x.Preds {
						if !li.blocks[p] {
							li.blocks[p] = true
							work = append(work, p)
						}
					}
				}
			}
		}
	}
	var list []*loopInfo
	for _, li := range loops {
		for b := range li.blocks {
			for _, in := range b.Instrs {
				if _, isDbg := in.(*ssa.DebugRef); isDbg {
					continue
				}
				if p := in.Pos(); p.IsValid() && (li.minPos == token.NoPos || p < li.minPos) {
					li.minPos = p
				}
			}
		}
		list = append(list, li)
	}
	sort.Slice(list, func(i, j int) bool {
		if list[i].minPos != list[j].minPos {
			return list[i].minPos < list[j].minPos
		}
		return len(list[i].blocks) > len(list[j].blocks)
	})
	for i, li := range list {
		li.ordinal = i
	}
	return loops
}

func isBackEdge(from, to *ssa.BasicBlock) bool { return to.Dominates(from) }

func rpo(fn *ssa.Function) []*ssa.BasicBlock {
	seen := map[*ssa.BasicBlock]bool{}
	var post []*ssa.BasicBlock
	var dfs func(b *ssa.BasicBlock)
	dfs = func(b *ssa.BasicBlock) {
		seen[b] = true
		for i := len(b.Succs) - 1; i >= 0; i-- {
			s := b.Succs[i]
			if isBackEdge(b, s) || seen[s] {
				continue
			}
			dfs(s)
		}
		post = append(post, b)
	}
	dfs(fn.Blocks[0])
	for i, j := 0, len(post)-1; i < j; i, j = i+1, j-1 {
		post[i], post[j] = post[j], post[i]
	}
	return post
}

type edgeKey struct {
	from *ssa.BasicBlock
	idx  int // index into from.Succs
}

// execBody runs fn from st (params bound in fr) and collects return states.
func (ex *Exec) execBody(fr *Frame, st *State) {
	fn := fr.fn
	if len(fn.Blocks) == 0 {
		panic("execBody: no body for " + fn.String())
	}
	fr.loops = ex.findLoops(fn)
	edges := map[edgeKey]*State{}
	order := rpo(fn)
	for _, b := range order {
		var incoming []*State
		var inEdges []edgeKey
		if b == fn.Blocks[0] {
			incoming = append(incoming, st)
			inEdges = append(inEdges, edgeKey{})
		}
		usedSucc := map[edgeKey]bool{}
		predEdge := make([]edgeKey, len(b.Preds))
		for pi, p := range b.Preds {
			// find the succ index in p that corresponds to this pred slot
			found := -1
			for si, s := range p.Succs {
				ek := edgeKey{p, si}
				if s == b && !usedSucc[ek] {
					found = si
					usedSucc[ek] = true
					break
				}
			}
			predEdge[pi] = edgeKey{p, found}
			if found < 0 || isBackEdge(p, b) {
				continue
			}
			if es := edges[edgeKey{p, found}]; es != nil && !es.pc.IsFalse() {
				incoming = append(incoming, es)
				inEdges = append(inEdges, edgeKey{p, found})
			}
		}
		if len(incoming) == 0 {
			continue
		}
		// phis need per-edge values before the merge forgets them
		for _, in := range b.Instrs {
			phi, ok := in.(*ssa.Phi)
			if !ok {
				break
			}
			var cur *Value
			for i := len(incoming) - 1; i >= 0; i-- {
				var opnd ssa.Value
				for pi := range b.Preds {
					if predEdge[pi] == inEdges[i] {
						opnd = phi.Edges[pi]
					}
				}
				if opnd == nil {
					continue
				}
				v := ex.eval(fr, incoming[i], opnd)
				if cur == nil {
					cur = v
				} else {
					cur = ex.iteValue(incoming[i].pc, v, cur)
				}
			}
			fr.regs[phi] = cur
		}
		cur := ex.merge(incoming)
		if len(incoming) > 1 {
			cur = cur.clone()
		}
		if li := fr.loops[b]; li != nil {
			cur = ex.enterLoop(fr, li, cur)
		}
		ex.execBlock(fr, b, cur, edges)
	}
}

func (ex *Exec) execBlock(fr *Frame, b *ssa.BasicBlock, st *State, edges map[edgeKey]*State) {
	for _, in := range b.Instrs {
		if st.pc.IsFalse() && ex.discover == nil {
			return
		}
		switch in := in.(type) {
		case *ssa.Phi, *ssa.DebugRef:
			continue
		case *ssa.If:
			c := ex.eval(fr, st, in.Cond).C[0]
			t := st.clone()
			ex.assume(t, c)
			f := st.clone()
			ex.assume(f, ex.tb.Not(c))
			ex.edge(fr, b, 0, t, edges)
			ex.edge(fr, b, 1, f, edges)
			return
		case *ssa.Jump:
			ex.edge(fr, b, 0, st, edges)
			return
		case *ssa.Return:
			var res []*Value
			vars := map[string]*Value{}
			for i, r := range in.Results {
				rv := ex.eval(fr, st, r)
				res = append(res, rv)
				vars[fmt.Sprintf("$r%d", i)] = rv
			}
			ex.atObligations(fr, st, "return", in, vars)
			fr.rets = append(fr.rets, retState{st: st, results: res})
			return
		case *ssa.Panic:
			ex.execPanic(fr, st, in)
			return
		default:
			ex.execInstr(fr, st, in)
		}
	}
}

func (ex *Exec) edge(fr *Frame, from *ssa.BasicBlock, idx int, st *State, edges map[edgeKey]*State) {
	to := from.Succs[idx]
	if isBackEdge(from, to) {
		if li := fr.loops[to]; li != nil {
			ex.closeLoop(fr, li, st)
		}
		return
	}
	edges[edgeKey{from, idx}] = st
}

// ---- loops ----

type loopCtx struct {
	entryState *State
	measure    []*Term
}

var loopCtxs = map[*loopInfo]*loopCtx{}

func (ex *Exec) loopContract(fr *Frame, li *loopInfo) *LoopContract {
	var c *FuncContract
	if fr.contract != nil {
		c = fr.contract
	} else {
		c = ex.prog.contractFor(fr.fn)
	}
	if c == nil {
		return nil
	}
	return c.Loops[li.ordinal]
}

// loopWrites discovers what the loop body may write by a dry run.
func (ex *Exec) loopWrites(fr *Frame, li *loopInfo, st *State) *writeSet {
	ws := newWriteSet()
	ws.mark = ex.tb.next
	// locals: syntactic
	for b := range li.blocks {
		for _, in := range b.Instrs {
			if s, ok := in.(*ssa.Store); ok {
				if a := rootAlloc(s.Addr); a != nil {
					ws.locals[a] = true
				}
			}
			// escaped locals passed by address to calls
			if c, ok := in.(ssa.CallInstruction); ok {
				for _, arg := range c.Common().Args {
					if a := rootAlloc(arg); a != nil {
						ws.locals[a] = true
					}
				}
			}
		}
	}
	// ghost variables updated by call-site clauses inside the loop
	for b := range li.blocks {
		for _, in := range b.Instrs {
			var cc *ssa.CallCommon
			switch x := in.(type) {
			case ssa.CallInstruction:
				cc = x.Common()
			}
			if cc == nil {
				continue
			}
			if name := callName(cc); name != "" {
				for _, cl := range ex.callSiteClauses(fr, name, ex.prog.callOrdinal(in, name)) {
					for _, g := range cl.Sets {
						ws.ghosts[g.Name] = true
					}
				}
			}
		}
	}
	// ghost variables updated by at-instruction clauses (conservatively: all of them)
	{
		c := fr.contract
		if c == nil {
			c = ex.prog.contractFor(fr.fn)
		}
		if c != nil {
			for _, gs := range c.AtSets {
				for _, g := range gs {
					ws.ghosts[g.Name] = true
				}
			}
		}
	}
	// closures called in the loop may write captured cells
	for b := range li.blocks {
		for _, in := range b.Instrs {
			if c, ok := in.(ssa.CallInstruction); ok {
				if _, isGo := in.(*ssa.Go); isGo {
					continue
				}
				ex.closureWrites(fr, c.Common(), ws)
			}
		}
	}
	// heap: dry run of the body from a state where everything the loop may
	// touch is unknown
	saved := ex.discover
	if saved == nil {
		ex.discoverFresh = map[int]bool{}
	}
	ex.discover = ws
	savedRegs := map[ssa.Value]*Value{}
	for k, v := range fr.regs {
		savedRegs[k] = v
	}
	dry := st.clone()
	ex.havocAllHeap(dry)
	for a := range ws.locals {
		if cur, ok := dry.locals[a]; ok {
			hv, facts := ex.havoc(cur.T, "dry."+a.Comment)
			hv.P, hv.F = cur.P, cur.F
			dry.locals[a] = hv
			ex.assume(dry, facts)
		}
	}
	ex.dryRunLoop(fr, li, dry)
	fr.regs = savedRegs
	ex.discover = saved
	if saved != nil {
		saved.addAll(ws)
	}
	return ws
}

func rootAlloc(v ssa.Value) *ssa.Alloc {
	for {
		switch x := v.(type) {
		case *ssa.Alloc:
			return x
		case *ssa.FieldAddr:
			v = x.X
		case *ssa.IndexAddr:
			// index into *array local
			if _, ok := x.X.Type().Underlying().(*types.Pointer); ok {
				v = x.X
			} else {
				return nil
			}
		default:
			return nil
		}
	}
}

func (ex *Exec) dryRunLoop(fr *Frame, li *loopInfo, st *State) {
	edges := map[edgeKey]*State{}
	for _, b := range rpo(fr.fn) {
		if !li.blocks[b] {
			continue
		}
		var incoming []*State
		if b == li.header {
			incoming = append(incoming, st)
		} else {
			for _, p := range b.Preds {
				for si, s := range p.Succs {
					if s == b && !isBackEdge(p, b) {
						if es := edges[edgeKey{p, si}]; es != nil {
							incoming = append(incoming, es)
						}
					}
				}
			}
		}
		if len(incoming) == 0 {
			continue
		}
		for _, in := range b.Instrs {
			if phi, ok := in.(*ssa.Phi); ok {
				hv, _ := ex.havoc(phi.Type(), "dryphi")
				fr.regs[phi] = hv
			}
		}
		cur := ex.merge(incoming)
		if len(incoming) > 1 {
			cur = cur.clone()
		}
		if inner := fr.loops[b]; inner != nil && inner != li {
			// nested loop: its writes are discovered recursively when reached
			ws := ex.loopWrites(fr, inner, cur)
			ex.havocWrites(cur, ws)
		}
		ex.execBlockDry(fr, b, cur, edges, li)
	}
}

func (ex *Exec) execBlockDry(fr *Frame, b *ssa.BasicBlock, st *State, edges map[edgeKey]*State, li *loopInfo) {
	for _, in := range b.Instrs {
		switch in := in.(type) {
		case *ssa.Phi, *ssa.DebugRef:
			continue
		case *ssa.If:
			t := st.clone()
			f := st.clone()
			edges[edgeKey{b, 0}] = t
			edges[edgeKey{b, 1}] = f
			return
		case *ssa.Jump:
			edges[edgeKey{b, 0}] = st
			return
		case *ssa.Return:
			// RunDefers etc. happen outside; nothing to record
			return
		case *ssa.Panic:
			return
		default:
			ex.execInstr(fr, st, in)
		}
	}
}

func (ex *Exec) havocWrites(st *State, ws *writeSet) {
	if ws.all {
		ex.havocAllHeap(st)
	} else {
		for c := range ws.classes {
			if ws.classes[c] {
				ex.havocClass(st, c)
			}
		}
		var keys []string
		for k := range ws.heap {
			keys = append(keys, k)
		}
		sort.Strings(keys)
		for _, k := range keys {
			info := ws.heap[k]
			precise := !info.wide && len(info.refs) > 0
			for _, r := range info.refs {
				if r.id >= ws.mark {
					precise = false
				}
			}
			if !precise {
				ex.havocHeapKey(st, info.rootKey, info.comp, info.sort)
				continue
			}
			// only the named objects are written: everything else keeps its value
			// (the new contents are read out of a fresh map rather than being fresh
			// array constants: the solvers instantiate quantified invariants over
			// select terms far more reliably than over array constants)
			h := ex.heapMap(st, info.rootKey, info.comp, info.sort)
			hf := ex.tb.Fresh("Hh$"+k, ex.L.liftSort(info.sort))
			for _, r := range info.refs {
				h = ex.tb.Store(h, r, ex.tb.Select(hf, r))
			}
			ex.setHeapMap(st, info.rootKey, info.comp, h)
		}
	}
	var gnames []string
	for g := range ws.ghosts {
		gnames = append(gnames, g)
	}
	sort.Strings(gnames)
	for _, g := range gnames {
		cur := ex.getGhost(st, g, nil)
		hv, facts := ex.havoc(cur.T, "loopghost."+g)
		st.ghost[g] = hv
		ex.assume(st, facts)
	}
	var allocs []*ssa.Alloc
	for a := range ws.locals {
		allocs = append(allocs, a)
	}
	sort.Slice(allocs, func(i, j int) bool { return allocs[i].Pos() < allocs[j].Pos() || (allocs[i].Pos() == allocs[j].Pos() && allocs[i].Name() < allocs[j].Name()) })
	for _, a := range allocs {
		cur, ok := st.locals[a]
		if !ok {
			continue
		}
		hv, facts := ex.havoc(cur.T, "loop."+a.Comment)
		// keep static shape of pointers/slices/closures across the loop when the
		// loop does not change it (checked by invariant re-establishment below)
		hv.P, hv.F = cur.P, cur.F
		if cur.P != nil {
			hv.P = ex.havocPtrIndexes(cur.P)
		}
		st.locals[a] = hv
		ex.assume(st, facts)
	}
}

func (ex *Exec) havocPtrIndexes(p *PtrInfo) *PtrInfo {
	np := &PtrInfo{Local: p.Local, Root: p.Root, Path: append([]PathElem(nil), p.Path...)}
	for i := range np.Path {
		if np.Path[i].IsIndex {
			np.Path[i].Index = ex.tb.Fresh("loopidx", np.Path[i].Index.Sort)
		}
	}
	return np
}

// rangeIndexAlloc finds the hidden index cell of a range-over-slice/array/string loop.
// loopLeftEarly: some edge leaves the loop from a block other than the header and does not
// lead straight to a return.
func loopLeftEarly(li *loopInfo) string {
	for b := range li.blocks {
		if b == li.header {
			continue
		}
		for _, s := range b.Succs {
			if li.blocks[s] {
				continue
			}
			t := s
			for steps := 0; steps < 8; steps++ {
				if len(t.Instrs) == 0 {
					break
				}
				last := t.Instrs[len(t.Instrs)-1]
				if _, ok := last.(*ssa.Return); ok {
					t = nil
					break
				}
				if _, ok := last.(*ssa.Panic); ok {
					t = nil
					break
				}
				if j, ok := last.(*ssa.Jump); ok && len(t.Succs) == 1 {
					_ = j
					t = t.Succs[0]
					continue
				}
				break
			}
			if t != nil {
				return "the loop can be left before its end without returning (break)"
			}
		}
	}
	return ""
}

// isMapRangeLoop: the loop header advances a map/string iterator (ssa.Next).
func isMapRangeLoop(li *loopInfo) bool {
	for _, in := range li.header.Instrs {
		if _, ok := in.(*ssa.Next); ok {
			return true
		}
	}
	return false
}

func rangeIndexAlloc(li *loopInfo) *ssa.Alloc {
	for _, in := range li.header.Instrs {
		if bo, ok := in.(*ssa.BinOp); ok && bo.Op == token.ADD {
			if ld, ok := bo.X.(*ssa.UnOp); ok {
				if a, ok := ld.X.(*ssa.Alloc); ok && a.Comment == "rangeindex" {
					return a
				}
			}
		}
	}
	return nil
}

func (ex *Exec) enterLoop(fr *Frame, li *loopInfo, st *State) *State {
	lc := ex.loopContract(fr, li)
	loopName := fmt.Sprintf("loop%d", li.ordinal)
	// 1. invariant holds on entry
	if lc != nil && ex.discover == nil {
		for _, inv := range lc.Invariants {
			env := ex.specEnv(fr, st, li.minPos)
			env.loopEntry = st
			env.loopIdx = rangeIndexAlloc(li)
			ex.curClause = loopName + " invariant " + inv.Label
			c := ex.evalSpecBool(env, inv.Expr)
			ex.obligeSpec(st, "inv-entry", loopName+":"+inv.Label, c, inv, nil)
		}
	}
	// exhaustive loops: left only through the header (range exhausted / condition false) or
	// by returning from the function
	if ex.discover == nil && lc != nil && lc.Exhaustive {
		if why := loopLeftEarly(li); why != "" {
			saved := st.pc
			n := len(ex.obls)
			ex.oblige(st, "shape", loopName+"-exhaustive", ex.tb.False, nil, why)
			st.pc = saved
			if len(ex.obls) > n && li.minPos.IsValid() {
				ex.obls[n].Pos = ex.prog.fset.Position(li.minPos)
			}
		}
	}
	// termination argument (functions under the no-spin property): a decreases clause, a
	// range loop, or a stated consumes-input assumption; a loop without any is an obligation
	// that fails, so that a new loop cannot slip in unexamined
	if ex.discover == nil && ex.rootContract != nil && hasProp(ex.rootContract.Props, "C03") && !(ex.rootContract.NoSafety) {
		switch {
		case lc != nil && len(lc.Decreases) > 0:
		case rangeIndexAlloc(li) != nil || isMapRangeLoop(li):
		case lc != nil && lc.ReadsInput != "":
			ex.usedExterns["termination of "+ex.rootName+" "+loopName+" assumed: "+lc.ReadsInput] = true
		default:
			n := len(ex.obls)
			saved := st.pc
			ex.oblige(st, "termination", loopName, ex.tb.False, nil, "no termination argument for this loop (decreases clause, range loop, or a stated reads-input assumption)")
			st.pc = saved
			if len(ex.obls) > n {
				ex.obls[n].Props = []string{"C03"}
				if li.minPos.IsValid() {
					ex.obls[n].Pos = ex.prog.fset.Position(li.minPos)
				}
			}
		}
	}
	// 2. havoc what the loop writes
	ws := ex.loopWrites(fr, li, st)
	entry := st.clone()
	hst := st.clone()
	ex.havocWrites(hst, ws)
	// automatic monotonicity facts for counters
	ex.autoCounterFacts(fr, li, entry, hst)
	// 3. assume invariant
	ctx := &loopCtx{entryState: entry}
	if lc != nil {
		for _, inv := range lc.Invariants {
			env := ex.specEnv(fr, hst, li.minPos)
			env.loopEntry = entry
			env.loopIdx = rangeIndexAlloc(li)
			c := ex.evalSpecBool(env, inv.Expr)
			ex.assume(hst, c)
		}
		for _, d := range lc.Decreases {
			env := ex.specEnv(fr, hst, li.minPos)
			v := ex.evalSpec(env, d)
			ctx.measure = append(ctx.measure, v.C[0])
		}
	}
	loopCtxs[li] = ctx
	return hst
}

func (ex *Exec) closeLoop(fr *Frame, li *loopInfo, st *State) {
	if ex.discover != nil {
		return
	}
	lc := ex.loopContract(fr, li)
	loopName := fmt.Sprintf("loop%d", li.ordinal)
	ctx := loopCtxs[li]
	if lc == nil {
		return
	}
	for _, inv := range lc.Invariants {
		env := ex.specEnv(fr, st, li.minPos)
		if ctx != nil {
			env.loopEntry = ctx.entryState
		}
		env.loopIdx = rangeIndexAlloc(li)
		c := ex.evalSpecBool(env, inv.Expr)
		ex.obligeSpec(st, "inv-step", loopName+":"+inv.Label, c, inv, nil)
	}
	if ctx != nil && len(lc.Decreases) > 0 {
		// lexicographic decrease, bounded below by 0
		tb := ex.tb
		var now []*Term
		for _, d := range lc.Decreases {
			env := ex.specEnv(fr, st, li.minPos)
			now = append(now, ex.evalSpec(env, d).C[0])
		}
		var dec *Term = tb.False
		for i := len(now) - 1; i >= 0; i-- {
			lt := tb.And(ex.lt(now[i], ctx.measure[i]), ex.geZero(ctx.measure[i]))
			eq := tb.Eq(now[i], ctx.measure[i])
			dec = tb.Or(lt, tb.And(eq, dec))
		}
		ex.obligeSpec(st, "dec", loopName, dec, nil, nil)
	}
}

// autoCounterFacts: a local int cell whose only stores inside the loop add a
// positive (negative) constant to its own value is >= (<=) its entry value.
func (ex *Exec) autoCounterFacts(fr *Frame, li *loopInfo, entry, hst *State) {
	type dir struct{ up, down, other bool }
	dirs := map[*ssa.Alloc]*dir{}
	for b := range li.blocks {
		for _, in := range b.Instrs {
			s, ok := in.(*ssa.Store)
			if !ok {
				continue
			}
			a, ok := s.Addr.(*ssa.Alloc)
			if !ok {
				if ra := rootAlloc(s.Addr); ra != nil {
					d := dirs[ra]
					if d == nil {
						d = &dir{}
						dirs[ra] = d
					}
					d.other = true
				}
				continue
			}
			d := dirs[a]
			if d == nil {
				d = &dir{}
				dirs[a] = d
			}
			bo, ok := s.Val.(*ssa.BinOp)
			if !ok || (bo.Op != token.ADD && bo.Op != token.SUB) {
				d.other = true
				continue
			}
			ld, ok1 := bo.X.(*ssa.UnOp)
			k, ok2 := bo.Y.(*ssa.Const)
			if !ok1 || !ok2 || ld.Op != token.MUL || ld.X != a || k.Value == nil {
				d.other = true
				continue
			}
			kv := k.Int64()
			if bo.Op == token.SUB {
				kv = -kv
			}
			switch {
			case kv > 0:
				d.up = true
			case kv < 0:
				d.down = true
			}
		}
	}
	for a, d := range dirs {
		if d.other || !isIntType(deref(a.Type())) {
			continue
		}
		if _, signed := intWidth(deref(a.Type())); !signed && d.down {
			continue
		}
		e, ok1 := entry.locals[a]
		h, ok2 := hst.locals[a]
		if !ok1 || !ok2 {
			continue
		}
		// also called from passes where cells were passed by address: skip those
		if ex.escapes(a) {
			continue
		}
		if d.up && !d.down {
			ex.assume(hst, ex.le(e.C[0], h.C[0]))
			// range-over-slice/array/string index: stays below the length it is compared with
			if a.Comment == "rangeindex" {
				for _, hb := range li.header.Instrs {
					if cmp, ok := hb.(*ssa.BinOp); ok && cmp.Op == token.LSS {
						if inc, ok := cmp.X.(*ssa.BinOp); ok && inc.Op == token.ADD {
							if ld, ok := inc.X.(*ssa.UnOp); ok && ld.X == ssa.Value(a) {
								if lv, ok := fr.regs[cmp.Y]; ok {
									ex.assume(hst, ex.lt(h.C[0], ex.toIndex(lv)))
								} else if c, ok := cmp.Y.(*ssa.Const); ok {
									ex.assume(hst, ex.lt(h.C[0], ex.toIndex(ex.constValue(c))))
								}
							}
						}
					}
				}
			}
		}
		if d.down && !d.up {
			ex.assume(hst, ex.le(h.C[0], e.C[0]))
		}
	}
}

func deref(t types.Type) types.Type {
	if p, ok := t.Underlying().(*types.Pointer); ok {
		return p.Elem()
	}
	return t
}

// escapes reports whether the address of a is used other than for direct
// loads/stores/field/index addressing.
// closureStaysLocal: the closure value is used only as the callee of calls and defers
// of the function that created it.
func closureStaysLocal(mc *ssa.MakeClosure) bool {
	refs := mc.Referrers()
	if refs == nil {
		return true
	}
	for _, r := range *refs {
		switch r := r.(type) {
		case *ssa.DebugRef:
		case *ssa.Defer:
			if r.Call.Value != ssa.Value(mc) {
				return false
			}
			for _, a := range r.Call.Args {
				if a == ssa.Value(mc) {
					return false
				}
			}
		case *ssa.Call:
			if r.Call.Value != ssa.Value(mc) {
				return false
			}
			for _, a := range r.Call.Args {
				if a == ssa.Value(mc) {
					return false
				}
			}
		default:
			return false
		}
	}
	return true
}

func (ex *Exec) escapes(a *ssa.Alloc) bool {
	if v, ok := ex.prog.escCache[a]; ok {
		return v
	}
	res := false
	var visit func(v ssa.Value)
	seen := map[ssa.Value]bool{}
	visit = func(v ssa.Value) {
		if seen[v] || res {
			return
		}
		seen[v] = true
		refs := v.Referrers()
		if refs == nil {
			return
		}
		for _, r := range *refs {
			switch r := r.(type) {
			case *ssa.Store:
				if r.Val == v {
					res = true
				}
			case *ssa.UnOp, *ssa.DebugRef:
			case *ssa.FieldAddr:
				visit(r)
			case *ssa.IndexAddr:
				if r.X == v {
					visit(r)
				} else {
					res = true
				}
			case *ssa.MakeClosure:
				// captured by a closure that this function only calls or defers itself
				// (never hands out, never runs as a goroutine): the variable stays private
				// to the function and its closure, provided the closure does not leak it
				if !closureStaysLocal(r) {
					res = true
					break
				}
				fn := r.Fn.(*ssa.Function)
				for i, b := range r.Bindings {
					if b == v && i < len(fn.FreeVars) {
						visit(fn.FreeVars[i])
					}
				}
			default:
				res = true
			}
		}
	}
	visit(a)
	ex.prog.escCache[a] = res
	return res
}
