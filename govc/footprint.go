package main

// Footprint rule at `go` statements (the fork rule of separation logic,
// restricted to what the properties need).  For every variable captured by the
// spawned closure the accesses of the child are compared with the accesses of
// the parent after the spawn:
//
//	cell(x)            the variable itself
//	obj(x)             the object x points to (whole)
//	obj(x).f           one field of it
//
// An access is a read or a write; accesses made through sync/atomic, channel
// operations and calls on interface values (whose implementations own their
// synchronisation) do not count.  The obligation race-free:<x> fails if some
// location is accessed by both sides, at least one side writes it, and the two
// accesses are not both synchronised.
//
// Whether a method call on a pointer writes its receiver comes from the callee's
// contract (`pure` = read only); calls with unknown effect count as writes.

import (
	"fmt"
	"go/token"
	"go/types"
	"sort"
	"strings"

	"golang.org/x/tools/go/ssa"
)

type fpAccess struct {
	loc   string // "cell", "obj", "obj.<field>"
	write bool
	what  string
}

// accessesOf collects the accesses to variable `root` (a FreeVar in the child, the
// bound Alloc in the parent) made by the given instructions.
func (ex *Exec) accessesOf(root ssa.Value, instrs []ssa.Instruction) []fpAccess {
	var out []fpAccess
	// values that hold the pointer stored in the variable (v := *root)
	loaded := map[ssa.Value]bool{}
	// addresses of fields of the pointee: value -> field name
	fieldAddr := map[ssa.Value]string{}
	for _, in := range instrs {
		switch in := in.(type) {
		case *ssa.UnOp:
			if in.Op == token.MUL {
				if in.X == root {
					out = append(out, fpAccess{loc: "cell", what: "read of the variable"})
					if _, ok := in.Type().Underlying().(*types.Pointer); ok {
						loaded[in] = true
					}
				} else if f, ok := fieldAddr[in.X]; ok {
					out = append(out, fpAccess{loc: "obj." + f, what: "read of field " + f})
				}
			}
		case *ssa.Store:
			if in.Addr == root {
				out = append(out, fpAccess{loc: "cell", write: true, what: "assignment to the variable"})
			} else if f, ok := fieldAddr[in.Addr]; ok {
				out = append(out, fpAccess{loc: "obj." + f, write: true, what: "assignment to field " + f})
			}
		case *ssa.FieldAddr:
			if loaded[in.X] {
				st := in.X.Type().Underlying().(*types.Pointer).Elem().Underlying().(*types.Struct)
				fieldAddr[in] = st.Field(in.Field).Name()
			} else if in.X == root {
				// the variable itself is a struct: field of the cell
				if pt, ok := in.X.Type().Underlying().(*types.Pointer); ok {
					if st, ok := pt.Elem().Underlying().(*types.Struct); ok {
						fieldAddr[in] = st.Field(in.Field).Name()
					}
				}
			}
		case ssa.CallInstruction:
			c := in.Common()
			name := callName(c)
			if strings.HasPrefix(name, "atomic.") {
				continue // synchronised access
			}
			var args []ssa.Value
			if !c.IsInvoke() {
				args = append(args, c.Args...)
			} else {
				args = append(args, c.Args...)
			}
			for ai, a := range args {
				switch {
				case a == root:
					// address of the variable handed to a callee
					if _, isGo := in.(*ssa.Go); isGo {
						continue
					}
					w := !ex.calleeReadOnly(c)
					// a struct variable used as (pointer) receiver: access to the variable's value
					out = append(out, fpAccess{loc: "cell", write: w, what: "call " + name + " on the variable"})
				case loaded[a]:
					w := !ex.calleeReadOnly(c)
					_ = ai
					out = append(out, fpAccess{loc: "obj", write: w, what: "call " + name + " on the object"})
				}
			}
		}
	}
	return out
}

func (ex *Exec) calleeReadOnly(c *ssa.CallCommon) bool {
	name := callName(c)
	if name == "" {
		return false
	}
	if ct := ex.prog.contractByName(name); ct != nil {
		return ct.Pure
	}
	if ct := ex.prog.externFor(name); ct != nil {
		return ct.Pure
	}
	return false
}

// instrsAfter lists the instructions the parent may execute after the spawn.
func instrsAfter(goIn *ssa.Go) []ssa.Instruction {
	var out []ssa.Instruction
	b := goIn.Block()
	seen := map[*ssa.BasicBlock]bool{}
	started := false
	for _, in := range b.Instrs {
		if in == ssa.Instruction(goIn) {
			started = true
			continue
		}
		if started {
			out = append(out, in)
		}
	}
	var work []*ssa.BasicBlock
	work = append(work, b.Succs...)
	for len(work) > 0 {
		x := work[len(work)-1]
		work = work[:len(work)-1]
		if seen[x] {
			continue
		}
		seen[x] = true
		out = append(out, x.Instrs...)
		work = append(work, x.Succs...)
	}
	// deferred closures run in the parent too
	for _, blk := range goIn.Parent().Blocks {
		for _, in := range blk.Instrs {
			if d, ok := in.(*ssa.Defer); ok {
				if mc, ok := d.Call.Value.(*ssa.MakeClosure); ok {
					_ = mc
				}
			}
		}
	}
	return out
}

func allInstrs(fn *ssa.Function) []ssa.Instruction {
	var out []ssa.Instruction
	for _, b := range fn.Blocks {
		out = append(out, b.Instrs...)
	}
	return out
}

// raceObligations emits one race-free obligation per captured variable.
func (ex *Exec) raceObligations(fr *Frame, st *State, in *ssa.Go) {
	if ex.discover != nil || len(ex.inlinePath) > 0 {
		return
	}
	mc, ok := in.Call.Value.(*ssa.MakeClosure)
	if !ok {
		return
	}
	child := mc.Fn.(*ssa.Function)
	parentAfter := instrsAfter(in)
	childInstrs := allInstrs(child)
	site := ex.siteWhat(in)
	for i, fv := range child.FreeVars {
		if i >= len(mc.Bindings) {
			break
		}
		bound := mc.Bindings[i]
		ca := ex.accessesOf(fv, childInstrs)
		pa := ex.accessesOf(bound, parentAfter)
		// deferred closures of the parent that capture the same variable
		for _, blk := range fr.fn.Blocks {
			for _, pin := range blk.Instrs {
				d, ok := pin.(*ssa.Defer)
				if !ok {
					continue
				}
				dmc, ok := d.Call.Value.(*ssa.MakeClosure)
				if !ok {
					continue
				}
				dfn := dmc.Fn.(*ssa.Function)
				for j, dfv := range dfn.FreeVars {
					if j < len(dmc.Bindings) && dmc.Bindings[j] == bound {
						pa = append(pa, ex.accessesOf(dfv, allInstrs(dfn))...)
					}
				}
			}
		}
		var conflicts []string
		for _, c := range ca {
			for _, p := range pa {
				if !c.write && !p.write {
					continue
				}
				if c.loc == p.loc || (c.loc == "obj" && strings.HasPrefix(p.loc, "obj")) || (p.loc == "obj" && strings.HasPrefix(c.loc, "obj")) {
					conflicts = append(conflicts, fmt.Sprintf("goroutine: %s / parent: %s", c.what, p.what))
				}
			}
		}
		sort.Strings(conflicts)
		claim := ex.tb.Bool(len(conflicts) == 0)
		detail := ""
		if len(conflicts) > 0 {
			detail = "unsynchronised conflicting accesses to " + fv.Name() + ": " + conflicts[0]
		}
		// recorded without being assumed afterwards (it is not a fact about this path)
		saved := st.pc
		n := len(ex.obls)
		ex.oblige(st, "race-free", site+":"+fv.Name(), claim, in, detail)
		st.pc = saved
		if len(ex.obls) > n {
			ex.obls[n].Detail = detail
			ex.obls[n].Props = []string{"C17"}
		}
	}
}
