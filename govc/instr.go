package main

import (
	"fmt"
	"go/constant"
	"go/token"
	"go/types"
	"math/big"

	"golang.org/x/tools/go/ssa"
)

// ---- operand evaluation ----

func (ex *Exec) eval(fr *Frame, st *State, v ssa.Value) *Value {
	switch v := v.(type) {
	case *ssa.Const:
		return ex.constValue(v)
	case *ssa.Parameter:
		for i, p := range fr.fn.Params {
			if p == v {
				return fr.params[i]
			}
		}
	case *ssa.FreeVar:
		for i, p := range fr.fn.FreeVars {
			if p == v {
				return fr.freeVars[i]
			}
		}
	case *ssa.Global:
		return ex.globalPtr(v)
	case *ssa.Function:
		return &Value{T: v.Type(), C: []*Term{ex.refLit(int64(1000 + ex.typeID("fn:"+v.String())))}, F: &FuncInfo{Fn: v}}
	case *ssa.Builtin:
		return &Value{T: v.Type(), C: []*Term{ex.refLit(0)}, F: &FuncInfo{Builtin: v.Name()}}
	}
	if r, ok := fr.regs[v]; ok {
		return r
	}
	if ex.discover != nil {
		hv, _ := ex.havoc(v.Type(), "undef")
		return hv
	}
	panic(fmt.Sprintf("eval: no value for %s (%T) in %s", v.Name(), v, fr.fn))
}

func (ex *Exec) refLit(v int64) *Term {
	if ex.L.bv {
		return ex.tb.BV(big.NewInt(v), 64)
	}
	return ex.tb.Int(v)
}

func (ex *Exec) typeID(k string) int {
	if id, ok := ex.typeIDs[k]; ok {
		return id
	}
	id := len(ex.typeIDs) + 1
	ex.typeIDs[k] = id
	return id
}

func (ex *Exec) constValue(c *ssa.Const) *Value {
	t := c.Type()
	if c.Value == nil {
		return ex.zero(t)
	}
	switch {
	case isBoolType(t):
		return &Value{T: t, C: []*Term{ex.tb.Bool(constant.BoolVal(c.Value))}}
	case isIntType(t):
		bi, ok := constant.Val(constant.ToInt(c.Value)).(*big.Int)
		if !ok {
			i64, _ := constant.Int64Val(constant.ToInt(c.Value))
			bi = big.NewInt(i64)
		}
		return &Value{T: t, C: []*Term{ex.bigLit(bi, t)}}
	case isStringType(t):
		sv := ex.stringLit(constant.StringVal(c.Value))
		sv.T = t
		return sv
	case isFloatType(t):
		f, _ := constant.Float64Val(c.Value)
		return &Value{T: t, C: []*Term{ex.fpLit(f)}}
	}
	ex.note("const of unsupported type " + t.String())
	hv, _ := ex.havoc(t, "const")
	return hv
}

func (ex *Exec) boolV(t *Term) *Value { return &Value{T: types.Typ[types.Bool], C: []*Term{t}} }
func (ex *Exec) intV(t *Term, gt types.Type) *Value { return &Value{T: gt, C: []*Term{t}} }

// ---- locations ----

type loc struct {
	local *ssa.Alloc
	root  types.Type
	ref   *Term
	path  []PathElem
	elemT types.Type
}

func (ex *Exec) resolve(p *Value) loc {
	pt, ok := p.T.Underlying().(*types.Pointer)
	if !ok {
		panic("resolve: not a pointer: " + p.T.String())
	}
	if p.P != nil {
		return loc{local: p.P.Local, root: p.P.Root, ref: p.C[0], path: p.P.Path, elemT: pt.Elem()}
	}
	return loc{root: pt.Elem(), ref: p.C[0], elemT: pt.Elem()}
}

// walk computes the component range and index terms for path inside root.
func (ex *Exec) walk(root types.Type, path []PathElem) (lo, hi int, idxs []*Term, t types.Type) {
	t = root
	comps := ex.L.rootComps(root)
	lo, hi = 0, len(comps)
	rootIsBacking := isBackingRoot(root)
	for i, pe := range path {
		if pe.IsIndex {
			idxs = append(idxs, pe.Index)
			_ = i
			_ = rootIsBacking
			switch u := t.Underlying().(type) {
			case *types.Array:
				t = u.Elem()
			default:
				panic("walk: index into " + t.String())
			}
			continue
		}
		l, h, ft := ex.L.fieldRange(t, pe.Field)
		lo, hi = lo+l, lo+h
		t = ft
	}
	return
}

func (ex *Exec) load(st *State, l loc) *Value {
	lo, hi, idxs, t := ex.walk(l.root, l.path)
	v := &Value{T: t, C: make([]*Term, hi-lo)}
	comps := ex.L.rootComps(l.root)
	if l.local != nil {
		cell, ok := st.locals[l.local]
		if !ok {
			cell = ex.zero(l.root)
			st.locals[l.local] = cell
		}
		if st.volat[l.local] {
			hv, facts := ex.havoc(cell.T, "volatile."+l.local.Comment)
			hv.P, hv.F, hv.I = cell.P, cell.F, cell.I
			ex.assume(st, facts)
			cell = hv
		}
		if len(l.path) == 0 {
			return cell
		}
		for j := lo; j < hi; j++ {
			t := cell.C[j]
			for _, ix := range idxs {
				t = ex.tb.Select(t, ix)
			}
			v.C[j-lo] = t
		}
	} else {
		key := typeKey(l.root)
		for j := lo; j < hi; j++ {
			t := ex.tb.Select(ex.heapMap(st, key, j, comps[j].Sort), l.ref)
			for _, ix := range idxs {
				t = ex.tb.Select(t, ix)
			}
			v.C[j-lo] = t
		}
	}
	ex.assume(st, ex.typeFacts(v))
	return v
}

func (ex *Exec) store(st *State, l loc, v *Value) {
	lo, hi, idxs, _ := ex.walk(l.root, l.path)
	if hi-lo != len(v.C) {
		panic(fmt.Sprintf("store: component count mismatch %d vs %d (%s into %s)", hi-lo, len(v.C), v.T, l.root))
	}
	comps := ex.L.rootComps(l.root)
	if l.local != nil {
		if ex.discover != nil {
			ex.discover.locals[l.local] = true
		}
		if len(l.path) == 0 {
			st.locals[l.local] = v
			return
		}
		cell, ok := st.locals[l.local]
		if !ok {
			cell = ex.zero(l.root)
		}
		nc := &Value{T: cell.T, C: append([]*Term(nil), cell.C...), P: cell.P, F: cell.F}
		for j := lo; j < hi; j++ {
			nc.C[j] = ex.nestedStore(cell.C[j], idxs, v.C[j-lo])
		}
		st.locals[l.local] = nc
		return
	}
	key := typeKey(l.root)
	for j := lo; j < hi; j++ {
		if ex.discover != nil && !ex.isFreshRef(l.ref) {
			ex.discover.noteWrite(fmt.Sprintf("%s|%d", key, j), heapKeyInfo{rootKey: key, root: l.root, comp: j, sort: comps[j].Sort}, l.ref)
		}
		h := ex.heapMap(st, key, j, comps[j].Sort)
		base := ex.tb.Select(h, l.ref)
		nv := ex.nestedStore(base, idxs, v.C[j-lo])
		ex.setHeapMap(st, key, j, ex.tb.Store(h, l.ref, nv))
	}
}

func (ex *Exec) nestedStore(arr *Term, idxs []*Term, v *Term) *Term {
	if len(idxs) == 0 {
		return v
	}
	inner := ex.nestedStore(ex.tb.Select(arr, idxs[0]), idxs[1:], v)
	return ex.tb.Store(arr, idxs[0], inner)
}

// ---- allocation ----

func (ex *Exec) newRef(st *State) *Term {
	ex.allocN++
	if ex.L.bv {
		r := ex.tb.Fresh("alloc", BVSort(64))
		ex.assume(st, ex.tb.Ne(r, ex.refLit(0)))
		return r
	}
	r := ex.tb.Add(ex.allocBase, ex.tb.Int(int64(ex.allocN)))
	if ex.discover != nil {
		ex.discoverFresh[r.id] = true
	}
	return r
}

// isFreshRef: the reference was allocated by the code being executed (writes to
// such objects are invisible to the pre-state and so not part of a frame).
func (ex *Exec) isFreshRef(t *Term) bool {
	// only objects allocated while the current write-set discovery is running: they did
	// not exist in the state the discovery started from
	return ex.discover != nil && ex.discoverFresh[t.id]
}

// allocFrontierBump: after unknown code ran, objects it allocated may collide
// with nothing we allocate later.
func (ex *Exec) allocFrontierBump(st *State) {}

// bumpFrontier: called code may have allocated objects of its own.  Everything it
// returned lies below a new allocation frontier, above which later allocations of
// the function under verification are numbered, so they stay distinct.
func (ex *Exec) bumpFrontier(res *Value) {
	if ex.allocBase == nil {
		return
	}
	nb := ex.tb.Fresh("allocBase", SInt)
	ex.allocBases[nb.id] = true
	ex.globalFacts = append(ex.globalFacts, ex.tb.Gt(nb, ex.tb.Add(ex.allocBase, ex.tb.Int(int64(ex.allocN)))))
	if res != nil {
		for i, c := range ex.L.Of(res.T).Comps {
			if c.Lift == 0 && (c.Kind == kRef || c.Kind == kSliceRef || c.Kind == kIfaceVal) && res.C[i].Sort == SInt {
				ex.globalFacts = append(ex.globalFacts, ex.tb.Lt(res.C[i], nb))
			}
		}
	}
	ex.allocBase = nb
	ex.allocN = 0
}

func (ex *Exec) newObject(st *State, t types.Type, init *Value) *Value {
	ref := ex.newRef(st)
	p := &Value{T: types.NewPointer(t), C: []*Term{ref}}
	if init == nil {
		init = ex.zero(t)
	}
	ex.store(st, loc{root: t, ref: ref, elemT: t}, init)
	if heapClass(typeKey(t)+"|0") == clsForeign {
		ex.ownedForeign[ref.id] = &ownedObj{ref: ref, t: t}
	}
	return p
}

// ---- instructions ----

func (ex *Exec) execInstr(fr *Frame, st *State, in ssa.Instruction) {
	tb := ex.tb
	switch in := in.(type) {
	case *ssa.Alloc:
		t := deref(in.Type())
		if in.Heap && ex.escapes(in) {
			fr.regs[in] = ex.newObject(st, t, nil)
			return
		}
		st.locals[in] = ex.zero(t)
		fr.regs[in] = &Value{T: in.Type(), C: []*Term{ex.refLit(0)}, P: &PtrInfo{Local: in, Root: t}}

	case *ssa.Store:
		ex.globalAccessObligations(fr, st, in.Addr, in)
		p := ex.eval(fr, st, in.Addr)
		v := ex.eval(fr, st, in.Val)
		if len(v.C) > 0 {
			if _, owned := ex.ownedForeign[v.C[0].id]; owned {
				if _, isPtr := v.T.Underlying().(*types.Pointer); isPtr && (p.P == nil || p.P.Local == nil) {
					ex.sharedRefs[v.C[0].id] = true // stored into the heap
				}
			}
		}
		l := ex.resolve(p)
		ex.nilCheck(st, p, in, "store")
		if a, ok := in.Addr.(*ssa.Alloc); ok && a.Comment != "" {
			// at assign:NAME[#k]: an assignment to the named local variable, $0 the value assigned
			ex.atObligations(fr, st, "assign:"+a.Comment, in, map[string]*Value{"$0": v})
		}
		if isElemOrFieldStore(in) {
			// at store[#k]: $0 the value stored, $1 the index (element stores)
			vars := map[string]*Value{"$0": v}
			if ia, ok := in.Addr.(*ssa.IndexAddr); ok {
				vars["$1"] = ex.eval(fr, st, ia.Index)
			}
			ex.atObligations(fr, st, "store", in, vars)
		}
		if len(l.path) == 0 && l.local != nil {
			// whole-cell store keeps static side info (pointer paths, closures)
			st.locals[l.local] = v
			if ex.discover != nil {
				ex.discover.locals[l.local] = true
			}
			return
		}
		ex.store(st, l, v)

	case *ssa.UnOp:
		fr.regs[in] = ex.execUnOp(fr, st, in)

	case *ssa.BinOp:
		x := ex.eval(fr, st, in.X)
		y := ex.eval(fr, st, in.Y)
		fr.regs[in] = ex.binop(st, in.Op, x, y, in.Type(), in)

	case *ssa.FieldAddr:
		p := ex.eval(fr, st, in.X)
		ex.nilCheck(st, p, in, "field")
		l := ex.resolve(p)
		np := &PtrInfo{Local: l.local, Root: l.root, Path: append(append([]PathElem(nil), l.path...), PathElem{Field: in.Field})}
		fr.regs[in] = &Value{T: in.Type(), C: []*Term{p.C[0]}, P: np}

	case *ssa.Field:
		x := ex.eval(fr, st, in.X)
		fr.regs[in] = ex.fieldValue(x, in.Field)

	case *ssa.IndexAddr:
		x := ex.eval(fr, st, in.X)
		idx := ex.toIndex(ex.eval(fr, st, in.Index))
		switch u := x.T.Underlying().(type) {
		case *types.Pointer: // *array
			at := u.Elem().Underlying().(*types.Array)
			ex.nilCheck(st, x, in, "index")
			ex.oblige(st, "index", ex.siteWhat(in), tb.And(ex.geZero(idx), ex.lt(idx, ex.idxLit(at.Len()))), in, "")
			l := ex.resolve(x)
			np := &PtrInfo{Local: l.local, Root: l.root, Path: append(append([]PathElem(nil), l.path...), PathElem{IsIndex: true, Index: idx})}
			fr.regs[in] = &Value{T: in.Type(), C: []*Term{x.C[0]}, P: np}
		case *types.Slice:
			ex.oblige(st, "index", ex.siteWhat(in), tb.And(ex.geZero(idx), ex.lt(idx, x.C[2])), in, "")
			fr.regs[in] = ex.sliceElemPtr(x, idx, in.Type())
		default:
			panic("IndexAddr on " + x.T.String())
		}

	case *ssa.Index:
		x := ex.eval(fr, st, in.X)
		idx := ex.toIndex(ex.eval(fr, st, in.Index))
		switch u := x.T.Underlying().(type) {
		case *types.Array:
			ex.oblige(st, "index", ex.siteWhat(in), tb.And(ex.geZero(idx), ex.lt(idx, ex.idxLit(u.Len()))), in, "")
			v := ex.elemValue(x, idx)
			ex.assume(st, ex.typeFacts(v))
			fr.regs[in] = v
		case *types.Basic: // string
			fr.regs[in] = ex.stringIndex(st, x, idx, in)
		default:
			panic("Index on " + x.T.String())
		}

	case *ssa.Lookup:
		x := ex.eval(fr, st, in.X)
		if isStringType(x.T) {
			idx := ex.toIndex(ex.eval(fr, st, in.Index))
			fr.regs[in] = ex.stringIndex(st, x, idx, in)
			return
		}
		ex.mapAccessObligations(fr, st, in)
		fr.regs[in] = ex.mapLookup(st, x, ex.eval(fr, st, in.Index), in.CommaOk, in.Type())

	case *ssa.Slice:
		fr.regs[in] = ex.execSlice(fr, st, in)

	case *ssa.MakeSlice:
		ln := ex.toIndex(ex.eval(fr, st, in.Len))
		cp := ex.toIndex(ex.eval(fr, st, in.Cap))
		ex.oblige(st, "make", ex.siteWhat(in), tb.And(ex.geZero(ln), ex.le(ln, cp)), in, "makeslice: len out of range")
		ex.allocObligation(fr, st, cp, in)
		fr.regs[in] = ex.makeSlice(st, in.Type(), ln, cp)

	case *ssa.MakeMap:
		ref := ex.newRef(st)
		m := &Value{T: in.Type(), C: []*Term{ref}}
		ex.mapInit(st, m)
		fr.regs[in] = m

	case *ssa.MakeChan:
		// at makechan[#k]: $0 the capacity
		ex.atObligations(fr, st, "makechan", in, map[string]*Value{"$0": ex.eval(fr, st, in.Size)})
		fr.regs[in] = &Value{T: in.Type(), C: []*Term{ex.newRef(st)}}

	case *ssa.MakeClosure:
		fn := in.Fn.(*ssa.Function)
		var bs []*Value
		for _, b := range in.Bindings {
			bs = append(bs, ex.eval(fr, st, b))
		}
		fr.regs[in] = &Value{T: in.Type(), C: []*Term{ex.newRef(st)}, F: &FuncInfo{Fn: fn, Bindings: bs}}

	case *ssa.MakeInterface:
		x := ex.eval(fr, st, in.X)
		if len(x.C) > 0 {
			if _, owned := ex.ownedForeign[x.C[0].id]; owned {
				ex.sharedRefs[x.C[0].id] = true // whoever receives the interface may keep it
			}
		}
		fr.regs[in] = ex.makeInterface(x, in.Type())

	case *ssa.ChangeInterface:
		x := ex.eval(fr, st, in.X)
		fr.regs[in] = &Value{T: in.Type(), C: x.C, I: x.I}

	case *ssa.ChangeType:
		x := ex.eval(fr, st, in.X)
		fr.regs[in] = &Value{T: in.Type(), C: x.C, P: x.P, F: x.F, I: x.I}

	case *ssa.Convert:
		fr.regs[in] = ex.convert(st, ex.eval(fr, st, in.X), in.Type(), in)

	case *ssa.SliceToArrayPointer:
		ex.note("SliceToArrayPointer abstracted")
		hv, facts := ex.havoc(in.Type(), "s2ap")
		ex.assume(st, facts)
		fr.regs[in] = hv

	case *ssa.TypeAssert:
		fr.regs[in] = ex.typeAssert(st, ex.eval(fr, st, in.X), in)

	case *ssa.Extract:
		tup := ex.eval(fr, st, in.Tuple)
		fr.regs[in] = ex.extract(tup, in.Index)

	case *ssa.Call:
		r := ex.call(fr, st, in.Common(), in)
		if r != nil {
			fr.regs[in] = r
		}

	case *ssa.Defer:
		var args []*Value
		c := in.Common()
		if !c.IsInvoke() {
			args = append(args, ex.eval(fr, st, c.Value))
		} else {
			args = append(args, ex.eval(fr, st, c.Value))
		}
		for _, a := range c.Args {
			args = append(args, ex.eval(fr, st, a))
		}
		if old, ok := st.armed[in]; ok && !old.IsFalse() {
			ex.note("defer executed more than once (loop): only last instance modelled")
		}
		st.armed[in] = tb.True
		st.dargs[in] = args

	case *ssa.RunDefers:
		ex.runDefers(fr, st, in)

	case *ssa.Go:
		ex.execGo(fr, st, in)

	case *ssa.MapUpdate:
		m := ex.eval(fr, st, in.Map)
		k := ex.eval(fr, st, in.Key)
		v := ex.eval(fr, st, in.Value)
		ex.mapAccessObligations(fr, st, in)
		ex.atObligations(fr, st, "mapupdate", in, map[string]*Value{"$0": m, "$1": k, "$2": v})
		ex.oblige(st, "nilmap", ex.siteWhat(in), tb.Not(tb.Eq(m.C[0], ex.refLit(0))), in, "assignment to entry in nil map")
		ex.mapStore(st, m, k, v)

	case *ssa.Range:
		x := ex.eval(fr, st, in.X)
		fr.regs[in] = ex.rangeInit(st, x, in)

	case *ssa.Next:
		fr.regs[in] = ex.rangeNext(fr, st, in)

	case *ssa.Select:
		fr.regs[in] = ex.execSelect(fr, st, in)

	case *ssa.Send:
		ch := ex.eval(fr, st, in.Chan)
		xv := ex.eval(fr, st, in.X)
		ex.atObligations(fr, st, "send", in, map[string]*Value{"$0": ch, "$1": xv})
		// channel send: no sequential effect modelled (ghost queues are handled by contracts)

	default:
		ex.note(fmt.Sprintf("unsupported instruction %T", in))
		ex.abstracted++
		if v, ok := in.(ssa.Value); ok {
			hv, facts := ex.havoc(v.Type(), "unsup")
			ex.assume(st, facts)
			fr.regs[v] = hv
		}
	}
}

func (ex *Exec) extract(tup *Value, i int) *Value {
	tt := tup.T.(*types.Tuple)
	lo := 0
	for j := 0; j < i; j++ {
		lo += len(ex.L.Of(tt.At(j).Type()).Comps)
	}
	et := tt.At(i).Type()
	n := len(ex.L.Of(et).Comps)
	v := &Value{T: et, C: tup.C[lo : lo+n : lo+n]}
	if tup.F != nil && len(tup.F.Bindings) > i && tup.F.Bindings[i] != nil {
		// tuple side-info carrier: Bindings[i] holds the full element value
		return tup.F.Bindings[i]
	}
	return v
}

func (ex *Exec) mkTuple(t types.Type, vals ...*Value) *Value {
	v := &Value{T: t}
	for _, e := range vals {
		v.C = append(v.C, e.C...)
	}
	// carry element side info
	v.F = &FuncInfo{Builtin: "$tuple", Bindings: vals}
	return v
}

func (ex *Exec) nilCheck(st *State, p *Value, in ssa.Instruction, what string) {
	if p.P != nil && p.P.Local != nil {
		return
	}
	if g, ok := in.(*ssa.FieldAddr); ok {
		if _, isG := g.X.(*ssa.Global); isG {
			return
		}
	}
	if p.P != nil && len(p.P.Path) > 0 {
		return // interior pointer derived from an already-checked base
	}
	c := ex.tb.Not(ex.tb.Eq(p.C[0], ex.refLit(0)))
	if c.IsTrue() {
		return
	}
	ex.oblige(st, "nil", ex.siteWhat(in), c, in, "nil pointer dereference")
}

func (ex *Exec) toIndex(v *Value) *Term {
	t := v.C[0]
	if ex.L.bv {
		w, signed := intWidth(v.T)
		if w < 64 {
			if signed {
				return ex.tb.BVSignExt(64-w, t)
			}
			return ex.tb.BVZeroExt(64-w, t)
		}
	}
	return t
}

func (ex *Exec) lt(a, b *Term) *Term {
	if a.Sort.IsBV() {
		return ex.tb.BVCmp("bvslt", a, b)
	}
	return ex.tb.Lt(a, b)
}

func (ex *Exec) add(a, b *Term) *Term { return ex.tb.Add(a, b) }
func (ex *Exec) sub(a, b *Term) *Term { return ex.tb.Sub(a, b) }

// ---- unary ----

func (ex *Exec) execUnOp(fr *Frame, st *State, in *ssa.UnOp) *Value {
	tb := ex.tb
	switch in.Op {
	case token.MUL: // load
		ex.globalAccessObligations(fr, st, in.X, in)
		p := ex.eval(fr, st, in.X)
		if g, ok := in.X.(*ssa.Global); ok {
			if v := ex.loadGlobal(st, g); v != nil {
				return v
			}
		}
		// element of a package-level table of constants that is never written: its value is known
		if ia, ok := in.X.(*ssa.IndexAddr); ok {
			if g, ok := ia.X.(*ssa.Global); ok {
				if _, isArr := deref(g.Type()).Underlying().(*types.Array); isArr {
					if v := ex.prog.constGlobal(ex, g); v != nil && len(v.C) == 1 {
						idx := ex.toIndex(ex.eval(fr, st, ia.Index))
						return &Value{T: in.Type(), C: []*Term{tb.Select(v.C[0], idx)}}
					}
				}
			}
		}
		ex.nilCheck(st, p, in, "load")
		return ex.load(st, ex.resolve(p))
	case token.NOT:
		x := ex.eval(fr, st, in.X)
		return &Value{T: in.Type(), C: []*Term{tb.Not(x.C[0])}}
	case token.SUB:
		x := ex.eval(fr, st, in.X)
		if isFloatType(x.T) {
			return &Value{T: in.Type(), C: []*Term{tb.Raw("fp.neg", SFP, x.C[0])}}
		}
		if ex.L.bv {
			return &Value{T: in.Type(), C: []*Term{tb.Neg(x.C[0])}}
		}
		return &Value{T: in.Type(), C: []*Term{ex.wrap(tb.Neg(x.C[0]), in.Type())}}
	case token.XOR:
		x := ex.eval(fr, st, in.X)
		if ex.L.bv {
			return &Value{T: in.Type(), C: []*Term{tb.BVNot(x.C[0])}}
		}
		// ^x == -x-1 (two's complement), wrapped for unsigned
		return &Value{T: in.Type(), C: []*Term{ex.wrap(tb.Sub(tb.Neg(x.C[0]), tb.Int(1)), in.Type())}}
	case token.ARROW:
		ch := ex.eval(fr, st, in.X)
		// at recv[#k]: $0 the channel received from
		ex.atObligations(fr, st, "recv", in, map[string]*Value{"$0": ch})
		et := in.X.Type().Underlying().(*types.Chan).Elem()
		v, facts := ex.havoc(et, "recv")
		ex.assume(st, facts)
		if in.CommaOk {
			ok := tb.Fresh("recvok", SBool)
			// a closed channel yields the zero value
			z := ex.zero(et)
			v = ex.iteValue(ok, v, z)
			return ex.mkTuple(in.Type(), v, ex.boolV(ok))
		}
		return v
	}
	panic("unop " + in.Op.String())
}

// ---- binary ----

func (ex *Exec) wrap(t *Term, gt types.Type) *Term {
	if t.Sort != SInt {
		return t
	}
	w, signed := intWidth(gt)
	if w == 64 && signed {
		return t // A-INT64: int/int64 arithmetic is mathematical
	}
	lo, hi := intBounds(w, signed)
	if t.ival != nil && t.ival.Cmp(lo) >= 0 && t.ival.Cmp(hi) <= 0 {
		return t
	}
	m := new(big.Int).Lsh(big.NewInt(1), uint(w))
	if !signed {
		return ex.tb.Mod(t, ex.tb.BigInt(m))
	}
	half := new(big.Int).Lsh(big.NewInt(1), uint(w-1))
	return ex.tb.Sub(ex.tb.Mod(ex.tb.Add(t, ex.tb.BigInt(half)), ex.tb.BigInt(m)), ex.tb.BigInt(half))
}

func (ex *Exec) binop(st *State, op token.Token, x, y *Value, rt types.Type, in ssa.Instruction) *Value {
	tb := ex.tb
	switch {
	case isStringType(x.T) && isStringType(y.T):
		return ex.stringBinop(st, op, x, y, rt, in)
	case isFloatType(x.T):
		return ex.floatBinop(op, x, y, rt)
	case isBoolType(x.T):
		switch op {
		case token.EQL:
			return ex.boolV(tb.Eq(x.C[0], y.C[0]))
		case token.NEQ:
			return ex.boolV(tb.Ne(x.C[0], y.C[0]))
		case token.LAND, token.AND:
			return ex.boolV(tb.And(x.C[0], y.C[0]))
		case token.LOR, token.OR:
			return ex.boolV(tb.Or(x.C[0], y.C[0]))
		}
	case isIntType(x.T) && (isIntType(y.T) || op == token.SHL || op == token.SHR):
		if ex.L.bv {
			return ex.bvBinop(st, op, x, y, rt, in)
		}
		return ex.intBinop(st, op, x, y, rt, in)
	}
	// generic equality over components (pointers, interfaces, structs, arrays of scalars)
	if op == token.EQL || op == token.NEQ {
		eq := ex.valuesEqual(st, x, y)
		if op == token.NEQ {
			eq = tb.Not(eq)
		}
		return ex.boolV(eq)
	}
	panic(fmt.Sprintf("binop %s on %s", op, x.T))
}

func (ex *Exec) valuesEqual(st *State, x, y *Value) *Term {
	tb := ex.tb
	if len(x.C) != len(y.C) {
		// interface vs concrete etc.
		ex.note("equality between differently shaped values")
		return tb.Fresh("eq", SBool)
	}
	l := ex.L.Of(x.T)
	if _, isIface := x.T.Underlying().(*types.Interface); isIface {
		// nil comparison only needs the tag
		if y.C[0].ival != nil && y.C[0].ival.Sign() == 0 {
			return tb.Eq(x.C[0], tb.Int(0))
		}
		if x.C[0].ival != nil && x.C[0].ival.Sign() == 0 {
			return tb.Eq(y.C[0], tb.Int(0))
		}
		return tb.And(tb.Eq(x.C[0], y.C[0]), tb.Eq(x.C[1], y.C[1]))
	}
	if _, isSlice := x.T.Underlying().(*types.Slice); isSlice {
		// only comparison with nil is legal
		if isNilRefValue(y) {
			return tb.Eq(x.C[0], ex.refLit(0))
		}
		return tb.Eq(y.C[0], ex.refLit(0))
	}
	var cs []*Term
	i := 0
	for i < len(l.Comps) {
		c := l.Comps[i]
		switch {
		case c.Kind == kStrArr && c.Lift == 0:
			cs = append(cs, ex.strEq(x.C[i], x.C[i+1], x.C[i+2], y.C[i], y.C[i+1], y.C[i+2]))
			i += 3
			continue
		case c.Lift > 0:
			// arrays: compare the valid index range; find static length
			n := ex.arrayLenAt(x.T, i)
			if n >= 0 && n <= 32 && c.Lift == 1 {
				for k := int64(0); k < n; k++ {
					cs = append(cs, tb.Eq(tb.Select(x.C[i], ex.idxLit(k)), tb.Select(y.C[i], ex.idxLit(k))))
				}
			} else {
				cs = append(cs, tb.Eq(x.C[i], y.C[i]))
				ex.note("array equality compared extensionally over all indices")
			}
		default:
			cs = append(cs, tb.Eq(x.C[i], y.C[i]))
		}
		i++
	}
	return tb.And(cs...)
}

// arrayLenAt finds the static length of the (outermost) array containing component i of type t.
func (ex *Exec) arrayLenAt(t types.Type, comp int) int64 {
	if st, ok := ex.L.structOf(t); ok {
		lo := 0
		for j := 0; j < st.NumFields(); j++ {
			n := len(ex.L.Of(st.Field(j).Type()).Comps)
			if comp < lo+n {
				return ex.arrayLenAt(st.Field(j).Type(), comp-lo)
			}
			lo += n
		}
		return -1
	}
	if a, ok := t.Underlying().(*types.Array); ok {
		return a.Len()
	}
	return -1
}

func (ex *Exec) intBinop(st *State, op token.Token, x, y *Value, rt types.Type, in ssa.Instruction) *Value {
	tb := ex.tb
	a, b := x.C[0], y.C[0]
	w, signed := intWidth(x.T)
	switch op {
	case token.ADD:
		return ex.intV(ex.wrap(tb.Add(a, b), rt), rt)
	case token.SUB:
		return ex.intV(ex.wrap(tb.Sub(a, b), rt), rt)
	case token.MUL:
		return ex.intV(ex.wrap(tb.Mul(a, b), rt), rt)
	case token.QUO:
		ex.oblige(st, "div", ex.siteWhat(in), tb.Ne(b, tb.Int(0)), in, "integer divide by zero")
		// Go truncates toward zero
		q := ex.truncDiv(a, b)
		return ex.intV(ex.wrap(q, rt), rt)
	case token.REM:
		ex.oblige(st, "div", ex.siteWhat(in), tb.Ne(b, tb.Int(0)), in, "integer divide by zero")
		q := ex.truncDiv(a, b)
		return ex.intV(tb.Sub(a, tb.Mul(q, b)), rt)
	case token.AND:
		return ex.intV(ex.bitAnd(a, b, w, signed), rt)
	case token.OR:
		return ex.intV(ex.bitOrXor("bor", a, b, w, signed, st), rt)
	case token.XOR:
		return ex.intV(ex.bitOrXor("bxor", a, b, w, signed, st), rt)
	case token.AND_NOT:
		ex.note("&^ abstracted")
		hv, f := ex.havoc(rt, "andnot")
		ex.assume(st, f)
		return hv
	case token.SHL:
		if b.ival != nil && b.ival.IsInt64() && b.ival.Int64() < 512 {
			m := new(big.Int).Lsh(big.NewInt(1), uint(b.ival.Int64()))
			return ex.intV(ex.wrapAlways(tb.Mul(a, tb.BigInt(m)), rt), rt)
		}
		return ex.intV(ex.wrapAlways(tb.Mul(a, ex.pow2(st, b)), rt), rt)
	case token.SHR:
		if b.ival != nil && b.ival.IsInt64() && b.ival.Int64() < 512 {
			m := new(big.Int).Lsh(big.NewInt(1), uint(b.ival.Int64()))
			return ex.intV(tb.Div(a, tb.BigInt(m)), rt)
		}
		return ex.intV(tb.Div(a, ex.pow2(st, b)), rt)
	case token.EQL:
		return ex.boolV(tb.Eq(a, b))
	case token.NEQ:
		return ex.boolV(tb.Ne(a, b))
	case token.LSS:
		return ex.boolV(tb.Lt(a, b))
	case token.LEQ:
		return ex.boolV(tb.Le(a, b))
	case token.GTR:
		return ex.boolV(tb.Gt(a, b))
	case token.GEQ:
		return ex.boolV(tb.Ge(a, b))
	}
	panic("intBinop " + op.String())
}

// wrapAlways wraps even 64-bit signed results (used for shifts, where overflow is routine).
func (ex *Exec) wrapAlways(t *Term, gt types.Type) *Term {
	w, signed := intWidth(gt)
	if w == 64 && signed {
		if t.ival != nil {
			lo, hi := intBounds(64, true)
			if t.ival.Cmp(lo) >= 0 && t.ival.Cmp(hi) <= 0 {
				return t
			}
		}
		m := new(big.Int).Lsh(big.NewInt(1), 64)
		half := new(big.Int).Lsh(big.NewInt(1), 63)
		return ex.tb.Sub(ex.tb.Mod(ex.tb.Add(t, ex.tb.BigInt(half)), ex.tb.BigInt(m)), ex.tb.BigInt(half))
	}
	return ex.wrap(t, gt)
}

// pow2 returns 2^b for a symbolic shift count using an ite ladder up to 64.
func (ex *Exec) pow2(st *State, b *Term) *Term {
	tb := ex.tb
	var t *Term = tb.BigInt(new(big.Int).Lsh(big.NewInt(1), 64))
	for k := 63; k >= 0; k-- {
		t = tb.Ite(tb.Eq(b, tb.Int(int64(k))), tb.BigInt(new(big.Int).Lsh(big.NewInt(1), uint(k))), t)
	}
	return t
}

func (ex *Exec) truncDiv(a, b *Term) *Term {
	tb := ex.tb
	if a.ival != nil && b.ival != nil && b.ival.Sign() != 0 {
		return tb.BigInt(new(big.Int).Quo(a.ival, b.ival))
	}
	if b.ival != nil && b.ival.Sign() > 0 {
		// a>=0: floor div; a<0: -((-a) div b)
		return tb.Ite(tb.Ge(a, tb.Int(0)), tb.Div(a, b), tb.Neg(tb.Div(tb.Neg(a), b)))
	}
	// general: SMT div is Euclidean; adjust
	q := tb.Div(a, b)
	exact := tb.Eq(tb.Mul(q, b), a)
	adj := tb.Ite(tb.Gt(b, tb.Int(0)), tb.Add(q, tb.Int(1)), tb.Sub(q, tb.Int(1)))
	return tb.Ite(tb.Or(tb.Ge(a, tb.Int(0)), exact), q, adj)
}

func isMask(v *big.Int) (int, bool) {
	// v == 2^k - 1
	if v.Sign() <= 0 {
		return 0, false
	}
	x := new(big.Int).Add(v, big.NewInt(1))
	if x.BitLen()-1 >= 0 && new(big.Int).Lsh(big.NewInt(1), uint(x.BitLen()-1)).Cmp(x) == 0 {
		return x.BitLen() - 1, true
	}
	return 0, false
}

func (ex *Exec) bitAnd(a, b *Term, w int, signed bool) *Term {
	tb := ex.tb
	if a.ival != nil && b.ival == nil {
		a, b = b, a
	}
	if a.ival != nil && b.ival != nil && a.ival.Sign() >= 0 && b.ival.Sign() >= 0 {
		return tb.BigInt(new(big.Int).And(a.ival, b.ival))
	}
	if b.ival != nil {
		if b.ival.Sign() == 0 {
			return tb.Int(0)
		}
		if k, ok := isMask(b.ival); ok {
			return tb.Mod(a, tb.BigInt(new(big.Int).Lsh(big.NewInt(1), uint(k))))
		}
		// single contiguous run of ones: (a div 2^lo mod 2^n) * 2^lo
		if b.ival.Sign() > 0 {
			lo := int(b.ival.TrailingZeroBits())
			sh := new(big.Int).Rsh(b.ival, uint(lo))
			if n, ok := isMask(sh); ok {
				p := tb.BigInt(new(big.Int).Lsh(big.NewInt(1), uint(lo)))
				return tb.Mul(tb.Mod(tb.Div(a, p), tb.BigInt(new(big.Int).Lsh(big.NewInt(1), uint(n)))), p)
			}
		}
	}
	ex.tb.DeclareUF("band", []Sort{SInt, SInt}, SInt)
	ex.note("general & abstracted as uninterpreted band")
	return tb.App("band", SInt, a, b)
}

func (ex *Exec) bitOrXor(name string, a, b *Term, w int, signed bool, st *State) *Term {
	tb := ex.tb
	if a.ival != nil && b.ival != nil && a.ival.Sign() >= 0 && b.ival.Sign() >= 0 {
		if name == "bor" {
			return tb.BigInt(new(big.Int).Or(a.ival, b.ival))
		}
		return tb.BigInt(new(big.Int).Xor(a.ival, b.ival))
	}
	if a.ival != nil && a.ival.Sign() == 0 {
		return b
	}
	if b.ival != nil && b.ival.Sign() == 0 {
		return a
	}
	ex.tb.DeclareUF(name, []Sort{SInt, SInt}, SInt)
	ex.note("general | or ^ abstracted as uninterpreted " + name + " (use mode bv for exact bit reasoning)")
	r := tb.App(name, SInt, a, b)
	if !signed {
		lo, hi := intBounds(w, false)
		ex.assume(st, tb.And(tb.Le(tb.BigInt(lo), r), tb.Le(r, tb.BigInt(hi))))
		if name == "bor" {
			ex.assume(st, tb.And(tb.Ge(r, a), tb.Ge(r, b)))
		}
	}
	return r
}

// ---- conversions ----

func (ex *Exec) convert(st *State, x *Value, to types.Type, in ssa.Instruction) *Value {
	tb := ex.tb
	from := x.T
	switch {
	case isIntType(from) && isIntType(to):
		if ex.L.bv {
			return ex.intV(ex.bvResize(x.C[0], from, to), to)
		}
		return ex.intV(ex.wrapAlways(x.C[0], to), to)
	case isIntType(from) && isFloatType(to) && x.X != nil:
		// exact: the integer came from truncating this float (|x| < 2^53 assumed by the range obligation)
		return &Value{T: to, C: []*Term{x.X}}
	case isIntType(from) && isFloatType(to):
		if ex.L.bv {
			ex.note("int->float in bv mode abstracted")
		}
		return &Value{T: to, C: []*Term{tb.Raw("(_ to_fp 11 53) RNE", SFP, tb.Raw("to_real", "Real", x.C[0]))}}
	case isFloatType(from) && isIntType(to):
		// Go: truncation toward zero; out-of-range is implementation-defined
		rz := tb.Raw("fp.roundToIntegral RTZ", SFP, x.C[0])
		r := tb.Raw("fp.to_real", "Real", rz)
		iv := ex.intV(tb.Raw("to_int", SInt, r), to)
		iv.X = rz
		// Go leaves out-of-range conversions implementation-defined: require the range
		if in != nil {
			lim := ex.fpLit(9.2e18)
			ex.oblige(st, "fpconv", ex.siteWhat(in), tb.And(tb.Not(tb.Raw("fp.isNaN", SBool, x.C[0])), tb.Raw("fp.lt", SBool, tb.Raw("fp.abs", SFP, x.C[0]), lim)), in, "float to int conversion out of range")
		}
		return iv
	case isFloatType(from) && isFloatType(to):
		return &Value{T: to, C: x.C}
	case isStringType(from) && isStringType(to):
		return &Value{T: to, C: x.C}
	case isStringType(to):
		return ex.toString(st, x, to, in)
	case isStringType(from):
		if s, ok := to.Underlying().(*types.Slice); ok {
			return ex.stringToSlice(st, x, to, s, in)
		}
	}
	if _, ok := to.Underlying().(*types.Pointer); ok {
		return &Value{T: to, C: x.C, P: x.P}
	}
	if _, ok := to.Underlying().(*types.Slice); ok {
		return &Value{T: to, C: x.C, P: x.P}
	}
	if len(ex.L.Of(to).Comps) == len(x.C) {
		return &Value{T: to, C: x.C, P: x.P, F: x.F}
	}
	ex.note(fmt.Sprintf("conversion %s -> %s abstracted", from, to))
	hv, f := ex.havoc(to, "conv")
	ex.assume(st, f)
	return hv
}

// ---- interfaces ----

func (ex *Exec) makeInterface(x *Value, it types.Type) *Value {
	tag := ex.tb.Int(int64(ex.typeID(typeKey(x.T))))
	var val *Term
	refSort := ex.L.Of(it).Comps[1].Sort
	switch x.T.Underlying().(type) {
	case *types.Pointer, *types.Map, *types.Chan, *types.Signature:
		val = x.C[0]
	default:
		if false {
			val = x.C[0]
		} else {
			// identity of a boxed value: a function of its components is not needed
			// for the properties checked; a fresh symbol over-approximates.
			val = ex.tb.Fresh("box", refSort)
			ex.boxes[val.id] = x
		}
	}
	return &Value{T: it, C: []*Term{tag, val}, I: x}
}

func (ex *Exec) typeAssert(st *State, x *Value, in *ssa.TypeAssert) *Value {
	tb := ex.tb
	at := in.AssertedType
	_, toIface := at.Underlying().(*types.Interface)
	var ok *Term
	var res *Value
	if x.I != nil {
		// statically known dynamic type
		if toIface {
			if types.Implements(x.I.T, at.Underlying().(*types.Interface)) {
				ok = tb.True
				res = &Value{T: at, C: x.C, I: x.I}
			} else {
				ok = tb.False
				res = ex.zero(at)
			}
		} else if types.Identical(x.I.T, at) {
			ok = tb.True
			res = x.I
		} else {
			ok = tb.False
			res = ex.zero(at)
		}
	} else if toIface {
		nonNil := tb.Ne(x.C[0], tb.Int(0))
		if types.Implements(x.T, at.Underlying().(*types.Interface)) {
			ok = nonNil
		} else {
			ok = tb.And(nonNil, tb.Fresh("implements", SBool))
		}
		res = &Value{T: at, C: x.C}
	} else {
		ok = tb.Eq(x.C[0], tb.Int(int64(ex.typeID(typeKey(at)))))
		hv, facts := ex.havoc(at, "asserted")
		ex.assume(st, facts)
		switch at.Underlying().(type) {
		case *types.Pointer, *types.Map, *types.Chan:
			hv.C[0] = x.C[1]
		}
		res = hv
	}
	if in.CommaOk {
		z := ex.zero(at)
		r := ex.iteValue(ok, res, z)
		if ok.IsTrue() {
			r = res
		}
		return ex.mkTuple(in.Type(), r, ex.boolV(ok))
	}
	ex.oblige(st, "typeassert", ex.siteWhat(in), ok, in, "interface conversion panics")
	return res
}

// ---- panics ----

func (ex *Exec) execPanic(fr *Frame, st *State, in *ssa.Panic) {
	// a contract may declare a documented panic as permitted
	c := ex.prog.contractFor(fr.fn)
	if c != nil && c.AllowPanic != nil {
		env := ex.specEnv(fr, st, in.Pos())
		cond := ex.evalSpecBool(env, c.AllowPanic)
		ex.oblige(st, "panic", ex.siteWhat(in), ex.tb.Implies(ex.tb.Not(cond), ex.tb.False), in, "explicit panic")
		return
	}
	ex.oblige(st, "panic", ex.siteWhat(in), ex.tb.False, in, "explicit panic")
}

// ---- floats ----

func (ex *Exec) fpLit(f float64) *Term {
	return ex.tb.RawLit(fpLiteral(f), SFP)
}

func (ex *Exec) floatBinop(op token.Token, x, y *Value, rt types.Type) *Value {
	tb := ex.tb
	a, b := x.C[0], y.C[0]
	switch op {
	case token.ADD:
		return &Value{T: rt, C: []*Term{tb.Raw("fp.add RNE", SFP, a, b)}}
	case token.SUB:
		return &Value{T: rt, C: []*Term{tb.Raw("fp.sub RNE", SFP, a, b)}}
	case token.MUL:
		return &Value{T: rt, C: []*Term{tb.Raw("fp.mul RNE", SFP, a, b)}}
	case token.QUO:
		return &Value{T: rt, C: []*Term{tb.Raw("fp.div RNE", SFP, a, b)}}
	case token.EQL:
		return ex.boolV(tb.Raw("fp.eq", SBool, a, b))
	case token.NEQ:
		return ex.boolV(tb.Not(tb.Raw("fp.eq", SBool, a, b)))
	case token.LSS:
		return ex.boolV(tb.Raw("fp.lt", SBool, a, b))
	case token.LEQ:
		return ex.boolV(tb.Raw("fp.leq", SBool, a, b))
	case token.GTR:
		return ex.boolV(tb.Raw("fp.gt", SBool, a, b))
	case token.GEQ:
		return ex.boolV(tb.Raw("fp.geq", SBool, a, b))
	}
	panic("floatBinop " + op.String())
}


// isElemOrFieldStore: a store through an element or field address (not the plain assignment
// of a local variable, which NaiveForm also renders as a Store)
func isElemOrFieldStore(in *ssa.Store) bool {
	switch in.Addr.(type) {
	case *ssa.IndexAddr, *ssa.FieldAddr:
		return true
	}
	return false
}
