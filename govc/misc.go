package main

import (
	"fmt"
	"go/types"
	"strings"

	"golang.org/x/tools/go/ssa"
)

// intrinsic: native models for a few functions whose results need static
// structure that contracts cannot express.  Everything else goes through
// contracts / extern specs.
func (ex *Exec) intrinsic(fr *Frame, st *State, name string, callee *ssa.Function, args []*Value, retT types.Type, site ssa.Instruction) (*Value, bool) {
	return nil, false
}

// closureWrites adds the local cells that closures created in this function may
// write when one of them is called (sequentially) inside a loop.
func (ex *Exec) closureWrites(fr *Frame, c *ssa.CallCommon, ws *writeSet) {
	if c.IsInvoke() {
		return
	}
	if _, ok := c.Value.(*ssa.Builtin); ok {
		return
	}
	callee := c.StaticCallee()
	if callee != nil && callee.Parent() == nil {
		return // top-level function: cannot touch our locals except through pointer args (handled)
	}
	for _, b := range fr.fn.Blocks {
		for _, in := range b.Instrs {
			mc, ok := in.(*ssa.MakeClosure)
			if !ok {
				continue
			}
			fn := mc.Fn.(*ssa.Function)
			for i, fv := range fn.FreeVars {
				if i >= len(mc.Bindings) {
					break
				}
				if a := rootAlloc(mc.Bindings[i]); a != nil && writesFreeVar(fn, fv) {
					ws.locals[a] = true
				}
			}
		}
	}
}

// callSiteClauses finds call clauses of the enclosing function's contract that
// apply to a call of the named callee.
func (ex *Exec) callSiteClauses(fr *Frame, calleeName string, nth int) []*CallClause {
	var c *FuncContract
	if fr.contract != nil {
		c = fr.contract
	} else {
		c = ex.prog.contractFor(fr.fn)
	}
	if c == nil && fr.inline {
		// a closure without a contract of its own, executed as part of its enclosing
		// function: the call clauses of that function's contract cover it as well
		for p := fr.fn.Parent(); p != nil && c == nil; p = p.Parent() {
			c = ex.prog.contractFor(p)
		}
	}
	if c == nil {
		return nil
	}
	var out []*CallClause
	for _, cc := range c.Calls {
		if cc.Callee != calleeName && !strings.HasSuffix(calleeName, "."+cc.Callee) {
			continue
		}
		if cc.Nth >= 0 && cc.Nth != nth {
			continue
		}
		out = append(out, cc)
	}
	return out
}

// mapAccessObligations: typestate obligations a contract attaches to every map
// access of its function (e.g. "the registry lock is held").
func (ex *Exec) mapAccessObligations(fr *Frame, st *State, in ssa.Instruction) {
	c := fr.contract
	if c == nil {
		c = ex.prog.contractFor(fr.fn)
	}
	if c == nil || len(c.MapAccess) == 0 || ex.discover != nil {
		return
	}
	for _, cl := range c.MapAccess {
		env := ex.specEnv(fr, st, in.Pos())
		cond := ex.evalSpecBool(env, cl.Expr)
		ex.obligeSpec(st, "mapaccess", ex.siteWhat(in)+":"+cl.Label, cond, cl, in)
	}
}

// atObligations: typestate obligations attached to every instruction of a kind.
func (ex *Exec) atObligations(fr *Frame, st *State, kind string, in ssa.Instruction, vars map[string]*Value) {
	c := fr.contract
	if c == nil {
		c = ex.prog.contractFor(fr.fn)
	}
	if c == nil || ex.discover != nil {
		return
	}
	clauses := append([]*Clause(nil), c.At[kind]...)
	// ordinal-specific clauses: at KIND#k
	if ord := ex.prog.kindOrdinal(in, kind); ord >= 0 {
		clauses = append(clauses, c.At[fmt.Sprintf("%s#%d", kind, ord)]...)
	}
	for _, cl := range clauses {
		env := ex.specEnv(fr, st, in.Pos())
		env.loopIdx = ex.enclosingRangeIdx(fr, in)
		env.laxLocals = kind == "return"
		for k, v := range vars {
			env.vars[k] = v
		}
		ex.curClause = "at " + kind + " requires " + cl.Label
		cond := ex.evalSpecBool(env, cl.Expr)
		ex.obligeSpec(st, "at-"+kind, ex.siteWhat(in)+":"+cl.Label, cond, cl, in)
	}
	// ghost updates attached to the instruction
	sets := append([]GhostSet(nil), c.AtSets[kind]...)
	if ord := ex.prog.kindOrdinal(in, kind); ord >= 0 {
		sets = append(sets, c.AtSets[fmt.Sprintf("%s#%d", kind, ord)]...)
	}
	for _, g := range sets {
		env := ex.specEnv(fr, st, in.Pos())
		env.loopIdx = ex.enclosingRangeIdx(fr, in)
		for k, v := range vars {
			env.vars[k] = v
		}
		ex.curClause = "at " + kind + " set " + g.Name
		ex.setGhost(st, g.Name, ex.evalSpec(env, g.Expr))
	}
}

// enclosingRangeIdx: the hidden index variable of the innermost range loop around an
// instruction (inside the body it holds the index of the current iteration).
func (ex *Exec) enclosingRangeIdx(fr *Frame, in ssa.Instruction) *ssa.Alloc {
	if in == nil || in.Block() == nil {
		return nil
	}
	var best *loopInfo
	for _, li := range fr.loops {
		if !li.blocks[in.Block()] {
			continue
		}
		if rangeIndexAlloc(li) == nil {
			continue
		}
		if best == nil || len(li.blocks) < len(best.blocks) {
			best = li
		}
	}
	if best == nil {
		return nil
	}
	return rangeIndexAlloc(best)
}

// globalAccessObligations: contracts may require a condition (e.g. "the registry lock is
// held") at every load or store of a named package-level variable or of one of its fields.
func (ex *Exec) globalAccessObligations(fr *Frame, st *State, addr ssa.Value, in ssa.Instruction) {
	c := fr.contract
	if c == nil {
		c = ex.prog.contractFor(fr.fn)
	}
	if c == nil || len(c.GlobalAccess) == 0 || ex.discover != nil {
		return
	}
	v := addr
	for {
		switch x := v.(type) {
		case *ssa.FieldAddr:
			v = x.X
			continue
		case *ssa.IndexAddr:
			v = x.X
			continue
		}
		break
	}
	g, ok := v.(*ssa.Global)
	if !ok {
		return
	}
	for _, cl := range c.GlobalAccess[g.Name()] {
		env := ex.specEnv(fr, st, in.Pos())
		ex.curClause = "globalaccess " + g.Name() + " requires " + cl.Label
		cond := ex.evalSpecBool(env, cl.Expr)
		ex.obligeSpec(st, "globalaccess", ex.siteWhat(in)+":"+cl.Label, cond, cl, in)
	}
}
