package main

import (
	"fmt"
	"go/types"
	"sort"
	"strings"

	"golang.org/x/tools/go/ssa"
)

type lazyDflt struct {
	cond  *Term
	epoch int
}

// heap classes: maps of in-repo struct types, of foreign (dependency) named
// types, and of plain data (slices, maps, pointees of basic type) are forgotten
// separately.
const (
	clsRepo = iota
	clsForeign
	clsData
	clsMap
	nClasses
)

const repoModPath = "github.com/la5nta/wl2k-go"

func heapClass(key string) int {
	root := key
	if i := strings.LastIndex(key, "|"); i >= 0 {
		root = key[:i]
	}
	if strings.HasPrefix(root, "map:") {
		return clsMap
	}
	rootClassMu.Lock()
	cls, ok := rootClassReg[root]
	rootClassMu.Unlock()
	if ok {
		return cls
	}
	switch {
	case strings.HasPrefix(key, "map:"):
		return clsMap
	case strings.HasPrefix(key, "["), strings.HasPrefix(key, "*"):
		return clsData
	case strings.Contains(key, repoModPath):
		return clsRepo
	case strings.Contains(key, "."):
		return clsForeign
	}
	return clsData
}

// State is one symbolic machine state at a program point.
type State struct {
	pc     *Term
	locals map[*ssa.Alloc]*Value
	heap   map[string]*Term // key: rootTypeKey|compIndex
	dflt   [nClasses][]lazyDflt // how to materialise heap maps not yet in heap
	ghost  map[string]*Value
	armed  map[*ssa.Defer]*Term // defer -> armed condition
	dargs  map[*ssa.Defer][]*Value
	volat  map[*ssa.Alloc]bool // cells that a running goroutine may write
}

func (ex *Exec) newState() *State {
	return &State{
		pc:     ex.tb.True,
		locals: map[*ssa.Alloc]*Value{},
		heap:   map[string]*Term{},
		dflt:   [nClasses][]lazyDflt{{{cond: ex.tb.True, epoch: 0}}, {{cond: ex.tb.True, epoch: 0}}, {{cond: ex.tb.True, epoch: 0}}, {{cond: ex.tb.True, epoch: 0}}},
		ghost:  map[string]*Value{},
		armed:  map[*ssa.Defer]*Term{},
		dargs:  map[*ssa.Defer][]*Value{},
		volat:  map[*ssa.Alloc]bool{},
	}
}

func (s *State) clone() *State {
	n := &State{pc: s.pc,
		locals: make(map[*ssa.Alloc]*Value, len(s.locals)),
		heap:   make(map[string]*Term, len(s.heap)),
		dflt:   cloneDflt(s.dflt),
		ghost:  make(map[string]*Value, len(s.ghost)),
		armed:  make(map[*ssa.Defer]*Term, len(s.armed)),
		dargs:  make(map[*ssa.Defer][]*Value, len(s.dargs)),
		volat:  make(map[*ssa.Alloc]bool, len(s.volat)),
	}
	for k, v := range s.locals {
		n.locals[k] = v
	}
	for k, v := range s.heap {
		n.heap[k] = v
	}
	for k, v := range s.ghost {
		n.ghost[k] = v
	}
	for k, v := range s.armed {
		n.armed[k] = v
	}
	for k, v := range s.dargs {
		n.dargs[k] = v
	}
	for k, v := range s.volat {
		n.volat[k] = v
	}
	return n
}

func cloneDflt(d [nClasses][]lazyDflt) [nClasses][]lazyDflt {
	var out [nClasses][]lazyDflt
	for i := range d {
		out[i] = append([]lazyDflt(nil), d[i]...)
	}
	return out
}

func (ex *Exec) assume(st *State, c *Term) { st.pc = ex.tb.And(st.pc, c) }

// heapMap returns the SMT array (ref -> component) for root type key and component.
func (ex *Exec) heapMap(st *State, rootKey string, comp int, sort Sort) *Term {
	k := fmt.Sprintf("%s|%d", rootKey, comp)
	if t, ok := st.heap[k]; ok {
		return t
	}
	ms := ex.L.liftSort(sort)
	ex.heapSorts[k] = ms
	return ex.heapByKey(st, k)
}

func (ex *Exec) setHeapMap(st *State, rootKey string, comp int, t *Term) {
	st.heap[fmt.Sprintf("%s|%d", rootKey, comp)] = t
}

// havocAllHeap forgets everything about the heap (unknown callee).
func (ex *Exec) havocAllHeap(st *State) {
	ex.epoch++
	st.heap = map[string]*Term{}
	for c := 0; c < nClasses; c++ {
		st.dflt[c] = []lazyDflt{{cond: ex.tb.True, epoch: ex.epoch}}
	}
	ex.allocFrontierBump(st)
}

// havocClass forgets every heap map of one class.  Objects of dependency types
// that the code under verification allocated itself and never handed out keep
// their state when foreign state is forgotten (nobody else can reach them).
func (ex *Exec) havocClass(st *State, cls int) {
	if cls == clsForeign && len(ex.ownedForeign) > 0 {
		type keep struct {
			key  string
			comp int
			sort Sort
			ref  *Term
			val  *Term
		}
		var keeps []keep
		var ids []int
		for id := range ex.ownedForeign {
			ids = append(ids, id)
		}
		sort.Ints(ids)
		for _, id := range ids {
			o := ex.ownedForeign[id]
			if ex.sharedRefs[id] {
				continue
			}
			key := typeKey(o.t)
			for i, c := range ex.L.rootComps(o.t) {
				h := ex.heapMap(st, key, i, c.Sort)
				keeps = append(keeps, keep{key, i, c.Sort, o.ref, ex.tb.Select(h, o.ref)})
			}
		}
		ex.havocClassRaw(st, cls)
		for _, k := range keeps {
			h := ex.heapMap(st, k.key, k.comp, k.sort)
			ex.setHeapMap(st, k.key, k.comp, ex.tb.Store(h, k.ref, k.val))
		}
		return
	}
	ex.havocClassRaw(st, cls)
}

func (ex *Exec) havocClassRaw(st *State, cls int) {
	ex.epoch++
	for k := range st.heap {
		if heapClass(k) == cls {
			delete(st.heap, k)
		}
	}
	st.dflt[cls] = []lazyDflt{{cond: ex.tb.True, epoch: ex.epoch}}
}

// havocHeapKeys forgets the listed heap maps only.
func (ex *Exec) havocHeapKey(st *State, rootKey string, comp int, sort Sort) {
	k := fmt.Sprintf("%s|%d", rootKey, comp)
	ex.heapSorts[k] = ex.L.liftSort(sort)
	st.heap[k] = ex.tb.Fresh("Hh$"+k, ex.L.liftSort(sort))
}

func (ex *Exec) havocRootType(st *State, root types.Type) {
	key := typeKey(root)
	for i, c := range ex.L.rootComps(root) {
		ex.havocHeapKey(st, key, i, c.Sort)
	}
}

// merge joins states arriving over different edges; conds[i] is the path
// condition of states[i] (mutually exclusive by construction).
func (ex *Exec) merge(states []*State) *State {
	if len(states) == 1 {
		return states[0]
	}
	tb := ex.tb
	out := ex.newState()
	var pcs []*Term
	for _, s := range states {
		pcs = append(pcs, s.pc)
	}
	out.pc = tb.Or(pcs...)
	// locals: union of keys
	keys := map[*ssa.Alloc]bool{}
	for _, s := range states {
		for k := range s.locals {
			keys[k] = true
		}
		for k := range s.volat {
			out.volat[k] = true
		}
	}
	for k := range keys {
		var cur *Value
		for i := len(states) - 1; i >= 0; i-- {
			v, ok := states[i].locals[k]
			if !ok {
				continue
			}
			if cur == nil {
				cur = v
			} else {
				cur = ex.iteValue(states[i].pc, v, cur)
			}
		}
		out.locals[k] = cur
	}
	// heap
	hkeys := map[string]bool{}
	var sameDflt [nClasses]bool
	for c := 0; c < nClasses; c++ {
		sameDflt[c] = true
	}
	for _, s := range states {
		for k := range s.heap {
			hkeys[k] = true
		}
		for c := 0; c < nClasses; c++ {
			if len(s.dflt[c]) != len(states[0].dflt[c]) {
				sameDflt[c] = false
			} else {
				for i := range s.dflt[c] {
					if s.dflt[c][i] != states[0].dflt[c][i] {
						sameDflt[c] = false
					}
				}
			}
		}
	}
	var hk []string
	for k := range hkeys {
		hk = append(hk, k)
	}
	sort.Strings(hk)
	for _, k := range hk {
		var cur *Term
		for i := len(states) - 1; i >= 0; i-- {
			t := ex.heapByKey(states[i], k)
			if cur == nil {
				cur = t
			} else {
				cur = tb.Ite(states[i].pc, t, cur)
			}
		}
		out.heap[k] = cur
	}
	for c := 0; c < nClasses; c++ {
		if sameDflt[c] {
			out.dflt[c] = append([]lazyDflt(nil), states[0].dflt[c]...)
		} else {
			out.dflt[c] = nil
			for _, s := range states {
				for _, d := range s.dflt[c] {
					out.dflt[c] = append(out.dflt[c], lazyDflt{cond: tb.And(s.pc, d.cond), epoch: d.epoch})
				}
			}
		}
	}
	// ghost
	gkeys := map[string]bool{}
	for _, s := range states {
		for k := range s.ghost {
			gkeys[k] = true
		}
	}
	for k := range gkeys {
		var cur *Value
		for i := len(states) - 1; i >= 0; i-- {
			v, ok := states[i].ghost[k]
			if !ok {
				v = ex.ghostInit(k)
			}
			if cur == nil {
				cur = v
			} else {
				cur = ex.iteValue(states[i].pc, v, cur)
			}
		}
		out.ghost[k] = cur
	}
	// defers
	dkeys := map[*ssa.Defer]bool{}
	for _, s := range states {
		for k := range s.armed {
			dkeys[k] = true
		}
	}
	for k := range dkeys {
		var cur *Term
		var args []*Value
		for i := len(states) - 1; i >= 0; i-- {
			a, ok := states[i].armed[k]
			if !ok {
				a = tb.False
			}
			if cur == nil {
				cur = a
				args = states[i].dargs[k]
			} else {
				cur = tb.Ite(states[i].pc, a, cur)
				if states[i].dargs[k] != nil {
					if args == nil {
						args = states[i].dargs[k]
					} else {
						na := make([]*Value, len(args))
						for j := range args {
							na[j] = ex.iteValue(states[i].pc, states[i].dargs[k][j], args[j])
						}
						args = na
					}
				}
			}
		}
		out.armed[k] = cur
		out.dargs[k] = args
	}
	return out
}

func (ex *Exec) heapByKey(st *State, k string) *Term {
	if t, ok := st.heap[k]; ok {
		return t
	}
	// need the sort: recover from any registered key sort
	s, ok := ex.heapSorts[k]
	if !ok {
		panic("heapByKey: unknown sort for " + k)
	}
	var t *Term
	dl := st.dflt[heapClass(k)]
	for i := len(dl) - 1; i >= 0; i-- {
		c := ex.tb.Const(fmt.Sprintf("H%d$%s", dl[i].epoch, k), s)
		if t == nil {
			t = c
		} else {
			t = ex.tb.Ite(dl[i].cond, c, t)
		}
	}
	st.heap[k] = t
	return t
}
